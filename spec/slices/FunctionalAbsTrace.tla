---- MODULE FunctionalAbsTrace ----
(* Abstract trace validator for C14: every recorded call is compared with the
   reference definition (FuncDefs); inputs must be unmodified; returned slices
   and maps must be new (mutating them leaves the input alone and vice versa),
   the Trim family excepted.  Stateless: each line is one case. *)
EXTENDS FuncDefs, TraceLib
CONSTANT Gate
VARIABLES l
vars == <<l>>
Ev == Trace[l]
\* "return exactly what their straightforward definitions give"
C_Result(e) == (~IsMapOp(e) \/ e.op \in {"MContainsValue", "MHasKey"}) /\ ~MustPanic(e) =>
                  LET x == Expect(e) IN e.rs = x.rs /\ e.ri = x.ri /\ e.rb = x.rb /\ e.rg = x.rg
\* map helpers whose result order is the map's iteration order
C_Map(e) == LET P == PairsOf(e.aux) IN
  CASE e.op = "MClone" -> PairsOf(e.rs) = P /\ Len(e.rs) = 2 * Cardinality(P)
    [] e.op = "MClear" -> e.after = <<>>
    [] e.op = "MKeys" -> Elems(e.rs) = {p[1] : p \in P} /\ Len(e.rs) = Cardinality(P)
    [] e.op = "MValues" -> Len(e.rs) = Cardinality(P) /\ \A v \in Elems(e.rs) \cup {p[2] : p \in P} : Count(e.rs, v) = Cardinality({p \in P : p[2] = v})
    [] e.op = "MKeyOf" -> IF \E p \in P : p[2] = e.a THEN e.rb /\ <<e.ri, e.a>> \in P ELSE ~e.rb /\ e.ri = 0
    [] OTHER -> TRUE
\* "None of them modifies its input"
C_InputKept(e) == IF IsMapOp(e) THEN (e.op # "MClear" => PairsOf(e.after) = PairsOf(e.aux) /\ Len(e.after) = Len(e.aux))
                  ELSE e.after = e.s /\ e.auxafter = e.aux
\* "every returned slice or map is new and can be modified without affecting the input" (and conversely)
C_Fresh(e) == ~MayAlias(e) =>
   IF IsMapOp(e) THEN /\ PairsOf(e.after2) = PairsOf(e.after) /\ Len(e.after2) = Len(e.after)   \* (map iteration order is free)
                      /\ (IF e.op = "MClone" THEN PairsOf(e.rs2) = PairsOf(e.rs) ELSE e.rs2 = e.rs)
   ELSE e.after2 = e.after /\ e.rs2 = e.rs
\* Last on an empty slice panics (documented); nothing else does
C_Panic(e) == IF MustPanic(e) THEN e.panic # "" ELSE e.panic = ""
All(e) == C_Result(e) /\ C_Map(e) /\ C_InputKept(e) /\ C_Fresh(e) /\ C_Panic(e)
TInit == l = 1
Step == l <= Len(Trace) /\ l' = l + 1 /\ (Gate => All(Ev))
TSpec == TInit /\ [][Step]_vars
Obs == Trace[l - 1]
Chk == ~Gate /\ l > 1
I_Panic == Chk => C_Panic(Obs)
I_Result == Chk => C_Result(Obs)
I_Map == Chk => C_Map(Obs)
I_InputKept == Chk => C_InputKept(Obs)
I_Fresh == Chk => C_Fresh(Obs)
Track == TrackL(l)
Accepted == AcceptedP
====
