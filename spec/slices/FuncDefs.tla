---- MODULE FuncDefs ----
(* Reference definitions of the functional slice and map helpers (C14), as
   TLA+ operators.  Used by the case-enumerating model (Functional.tla) and by
   the trace validator (FunctionalAbsTrace.tla).
   A call is a record [op, s, a, b, aux, fam]: input slice, two integer
   arguments, an auxiliary slice (seed sequence / unwanted / exclude / flattened
   map k1,v1,k2,v2..) and the name of the callback family. *)
EXTENDS Integers, Sequences, FiniteSets
Pred(fam, c, v) == CASE fam = "eq" -> v = c [] fam = "ne" -> v # c [] fam = "gt" -> v > c [] OTHER -> FALSE
Equiv(fam, x, y) == CASE fam = "mod2" -> x % 2 = y % 2
                      [] fam = "leq" -> x <= y            \* not symmetric: x is the slice element / kept value, y the value asked about
                      [] fam = "near" -> x - y <= 1 /\ y - x <= 1      \* not transitive: the definitions must not assume an equivalence
                      [] OTHER -> x = y
KeyOfV(fam, v) == CASE fam = "mod2" -> v % 2 [] fam = "id" -> v [] OTHER -> 0
Conv(fam, v) == IF fam = "neg" THEN 0 - v ELSE v * 10
Acc(fam, st, v) == IF fam = "rec" THEN Append(st, v) ELSE <<10 * st[1] + v>>   \* "dec": state kept as a 1-tuple
\* Stateful callback families ("for every input" includes callbacks that count how often they are asked): under the straightforward
\* definitions the i-th element is the subject of the i-th call, so these are functions of the POSITION
IsPos(fam) == fam \in {"oddcall", "first2"}
PosPred(fam, i) == IF fam = "oddcall" THEN i % 2 = 1 ELSE i <= 2
RECURSIVE SelPos(_, _, _)
SelPos(s, fam, i) == IF i > Len(s) THEN <<>> ELSE (IF PosPred(fam, i) THEN <<s[i]>> ELSE <<>>) \o SelPos(s, fam, i + 1)
FirstPos(s, fam) == IF \E i \in 1..Len(s) : PosPred(fam, i) THEN (CHOOSE i \in 1..Len(s) : PosPred(fam, i) /\ \A j \in 1..i - 1 : ~PosPred(fam, j)) - 1 ELSE -1
RECURSIVE SelPar(_, _, _)
SelPar(s, par, i) == IF i > Len(s) THEN <<>> ELSE (IF i % 2 = par THEN <<s[i]>> ELSE <<>>) \o SelPar(s, par, i + 1)
GroupsPar(s) == IF Len(s) = 0 THEN <<>> ELSE IF Len(s) = 1 THEN << <<1, s>> >> ELSE << <<1, SelPar(s, 1, 1)>>, <<0, SelPar(s, 0, 1)>> >>
Rev(s) == [i \in 1..Len(s) |-> s[Len(s) + 1 - i]]
Elems(s) == {s[i] : i \in 1..Len(s)}
\* Fold(s,seed,acc) = acc(...acc(acc(seed,s[0]),s[1])...,s[n-1])
RECURSIVE FoldL(_, _, _)
FoldL(fam, st, s) == IF s = <<>> THEN st ELSE FoldL(fam, Acc(fam, st, s[1]), Tail(s))
FoldR(fam, st, s) == FoldL(fam, st, Rev(s))
FilterP(s, fam, c) == LET T(v) == Pred(fam, c, v) IN SelectSeq(s, T)
FirstIdx(s, fam, c) == IF \E i \in 1..Len(s) : Pred(fam, c, s[i]) THEN (CHOOSE i \in 1..Len(s) : Pred(fam, c, s[i]) /\ \A j \in 1..i - 1 : ~Pred(fam, c, s[j])) - 1 ELSE -1
RECURSIVE DistinctBy(_, _, _)
DistinctBy(fam, acc, s) == IF s = <<>> THEN acc
   ELSE DistinctBy(fam, IF \E i \in 1..Len(acc) : Equiv(fam, acc[i], s[1]) THEN acc ELSE Append(acc, s[1]), Tail(s))
ExceptOf(s, ex) == LET T(v) == v \notin Elems(ex) IN SelectSeq(s, T)
RECURSIVE DropL(_, _, _), DropR(_, _, _)
DropL(s, U(_), d) == IF s # <<>> /\ U(s[1]) THEN DropL(Tail(s), U, d) ELSE s
DropR(s, U(_), d) == IF s # <<>> /\ U(s[Len(s)]) THEN DropR(SubSeq(s, 1, Len(s) - 1), U, d) ELSE s
GroupKeys(fam, s) == DistinctBy("eq", <<>>, [i \in 1..Len(s) |-> KeyOfV(fam, s[i])])
Groups(fam, s) == LET ks == GroupKeys(fam, s) IN
   [i \in 1..Len(ks) |-> LET T(v) == KeyOfV(fam, v) = ks[i] IN <<ks[i], SelectSeq(s, T)>>]
RECURSIVE FlatPairs(_)
FlatPairs(ps) == IF ps = <<>> THEN <<>> ELSE <<ps[1][1], ps[1][2]>> \o FlatPairs(Tail(ps))
Counts(fam, s) == LET g == Groups(fam, s) IN FlatPairs([i \in 1..Len(g) |-> <<g[i][1], Len(g[i][2])>>])
\* flattened map -> set of pairs
PairsOf(f) == {<<f[2 * i - 1], f[2 * i]>> : i \in 1..(Len(f) \div 2)}
InR(s, i) == i >= 0 /\ i < Len(s)
R0 == [rs |-> <<>>, ri |-> 0, rb |-> FALSE, rg |-> <<>>]
\* expected result of a deterministic call (map helpers whose answer depends on iteration order are checked separately)
Expect(e) ==
  LET s == e.s IN
  CASE e.op = "Fold" -> [R0 EXCEPT !.rs = FoldL(e.fam, e.aux, s)]
    [] e.op = "FoldReverse" -> [R0 EXCEPT !.rs = FoldR(e.fam, e.aux, s)]
    [] e.op = "Map" -> [R0 EXCEPT !.rs = [i \in 1..Len(s) |-> IF e.fam = "callno" THEN 100 * i + s[i] ELSE Conv(e.fam, s[i])]]
    [] e.op = "MapErr" -> LET j == FirstIdx(s, e.fam, e.a) IN
                          IF j = -1 THEN [R0 EXCEPT !.rs = [i \in 1..Len(s) |-> Conv("x10", s[i])], !.ri = Len(s)]
                          ELSE [R0 EXCEPT !.rb = TRUE, !.ri = j + 1]        \* no result, the error, exactly j+1 calls
    [] e.op = "Filter" -> [R0 EXCEPT !.rs = IF IsPos(e.fam) THEN SelPos(s, e.fam, 1) ELSE FilterP(s, e.fam, e.a)]
    [] e.op = "Any" -> [R0 EXCEPT !.rb = \E i \in 1..Len(s) : IF IsPos(e.fam) THEN PosPred(e.fam, i) ELSE Pred(e.fam, e.a, s[i])]
    [] e.op = "All" -> [R0 EXCEPT !.rb = \A i \in 1..Len(s) : IF IsPos(e.fam) THEN PosPred(e.fam, i) ELSE Pred(e.fam, e.a, s[i])]
    [] e.op = "Index" -> [R0 EXCEPT !.ri = FirstIdx(s, "eq", e.a)]
    [] e.op = "IndexFunc" -> [R0 EXCEPT !.ri = IF IsPos(e.fam) THEN FirstPos(s, e.fam) ELSE FirstIdx(s, e.fam, e.a)]
    [] e.op = "Contains" -> [R0 EXCEPT !.rb = e.a \in Elems(s)]
    [] e.op = "ContainsFunc" -> [R0 EXCEPT !.rb = \E i \in 1..Len(s) : Equiv(e.fam, s[i], e.a)]
    [] e.op = "Distinct" -> [R0 EXCEPT !.rs = DistinctBy("eq", <<>>, s)]
    [] e.op = "DistinctFunc" -> [R0 EXCEPT !.rs = DistinctBy(e.fam, <<>>, s)]
    [] e.op \in {"Except", "ExceptSetM", "ExceptSetS"} -> [R0 EXCEPT !.rs = ExceptOf(s, e.aux)]
    [] e.op = "GroupBy" -> [R0 EXCEPT !.rg = IF e.fam = "callpar" THEN GroupsPar(s) ELSE Groups(e.fam, s)]
    [] e.op = "CountBy" -> [R0 EXCEPT !.rs = IF e.fam = "callpar"
                                             THEN LET g == GroupsPar(s) IN FlatPairs([i \in 1..Len(g) |-> <<g[i][1], Len(g[i][2])>>])
                                             ELSE Counts(e.fam, s)]
    [] e.op = "Trim" -> LET U(v) == v \in Elems(e.aux) IN [R0 EXCEPT !.rs = DropL(DropR(s, U, 0), U, 0)]
    [] e.op = "TrimLeft" -> LET U(v) == v \in Elems(e.aux) IN [R0 EXCEPT !.rs = DropL(s, U, 0)]
    [] e.op = "TrimRight" -> LET U(v) == v \in Elems(e.aux) IN [R0 EXCEPT !.rs = DropR(s, U, 0)]
    [] e.op = "TrimFunc" -> LET U(v) == Pred(e.fam, e.a, v) IN [R0 EXCEPT !.rs = DropL(DropR(s, U, 0), U, 0)]
    [] e.op = "TrimLeftFunc" -> LET U(v) == Pred(e.fam, e.a, v) IN [R0 EXCEPT !.rs = DropL(s, U, 0)]
    [] e.op = "TrimRightFunc" -> LET U(v) == Pred(e.fam, e.a, v) IN [R0 EXCEPT !.rs = DropR(s, U, 0)]
    [] e.op = "TryGet" -> IF InR(s, e.a) THEN [R0 EXCEPT !.ri = s[e.a + 1], !.rb = TRUE] ELSE R0
    [] e.op = "SafeGet" -> [R0 EXCEPT !.ri = IF InR(s, e.a) THEN s[e.a + 1] ELSE 0]
    [] e.op = "SafeGetOr" -> [R0 EXCEPT !.ri = IF InR(s, e.a) THEN s[e.a + 1] ELSE e.b]
    [] e.op = "Last" -> [R0 EXCEPT !.ri = IF s = <<>> THEN 0 ELSE s[Len(s)]]
    [] e.op = "MContainsValue" -> [R0 EXCEPT !.rb = \E p \in PairsOf(e.aux) : p[2] = e.a]
    [] e.op = "MHasKey" -> [R0 EXCEPT !.rb = \E p \in PairsOf(e.aux) : p[1] = e.a]
    [] OTHER -> R0
\* which calls are allowed / required to panic
MustPanic(e) == e.op = "Last" /\ e.s = <<>>
\* helpers that may return (a sub-slice of) their argument
MayAlias(e) == e.op \in {"Trim", "TrimLeft", "TrimRight", "TrimFunc", "TrimLeftFunc", "TrimRightFunc"}
IsMapOp(e) == e.op \in {"MClone", "MClear", "MKeys", "MValues", "MKeyOf", "MContainsValue", "MHasKey"}
Count(q, v) == Cardinality({i \in 1..Len(q) : q[i] = v})
====
