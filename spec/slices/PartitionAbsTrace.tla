---- MODULE PartitionAbsTrace ----
(* Abstract trace validator for C13: every recorded call of Chunk/Windowed/
   Pairs (and its *Func variant) is checked against the property's
   characterisation.  Stateless: each line is one case. *)
EXTENDS TraceLib
CONSTANT Gate
VARIABLES l
vars == <<l>>
Ev == Trace[l]
RECURSIVE Flat(_)
Flat(ps) == IF ps = <<>> THEN <<>> ELSE ps[1] \o Flat(Tail(ps))
Ceil(n, d) == (n + d - 1) \div d
\* "Chunk returns ceil(n/size) consecutive non-empty pieces, each of length size except possibly a shorter last one, whose concatenation is the input"
C_Chunk(e) == e.op = "Chunk" =>
   /\ Len(e.res) = Ceil(Len(e.input), e.size) /\ Flat(e.res) = e.input
   /\ \A i \in 1..Len(e.res) : Len(e.res[i]) >= 1 /\ Len(e.res[i]) <= e.size /\ (i < Len(e.res) => Len(e.res[i]) = e.size)
\* "Windowed returns the n-size+1 contiguous windows of that size in order (none when n < size)"
C_Windowed(e) == e.op = "Windowed" =>
   /\ Len(e.res) = (IF Len(e.input) < e.size THEN 0 ELSE Len(e.input) - e.size + 1)
   /\ \A i \in 1..Len(e.res) : e.res[i] = SubSeq(e.input, i, i + e.size - 1)
\* "Pairs returns the n-1 adjacent pairs in order"
C_Pairs(e) == e.op = "Pairs" =>
   /\ Len(e.res) = (IF Len(e.input) < 2 THEN 0 ELSE Len(e.input) - 1)
   /\ \A i \in 1..Len(e.res) : e.res[i] = <<e.input[i], e.input[i + 1]>>
\* "ChunkFunc, WindowedFunc and PairsFunc invoke their callback with exactly the same sequence of pieces"
C_Func(e) == e.cb = e.res
C_NoPanic(e) == e.panic = ""
C_InputKept(e) == e.after = e.input
All(e) == C_Chunk(e) /\ C_Windowed(e) /\ C_Pairs(e) /\ C_Func(e) /\ C_NoPanic(e) /\ C_InputKept(e)
TInit == l = 1
Step == l <= Len(Trace) /\ l' = l + 1 /\ (Gate => All(Ev))
TSpec == TInit /\ [][Step]_vars
Obs == Trace[l - 1]
Chk == ~Gate /\ l > 1
I_NoPanic == Chk => C_NoPanic(Obs)
I_Chunk == Chk => C_Chunk(Obs)
I_Windowed == Chk => C_Windowed(Obs)
I_Pairs == Chk => C_Pairs(Obs)
I_Func == Chk => C_Func(Obs)
I_InputKept == Chk => C_InputKept(Obs)
Track == TrackL(l)
Accepted == AcceptedP
====
