---- MODULE Splice ----
(* C12 case-enumerating model: Insert, InsertSlice, Remove, RemoveSlice, Fill,
   Repeat, Reverse, Concat, Clone, Grow transcribed over GoSlice (append in
   place or reallocating, overlapping copy, doubling fill, index-walk reverse).
   TLC checks, for every length, spare capacity, position and count in the
   bounds, that the transcription yields the splice definition, and enumerates
   the cells as drivers. *)
EXTENDS GoSlice, TLC, Json
CONSTANTS MaxLen, MaxSpare, MaxIns
VARIABLES last
Junk == -5
Ids(n) == [i \in 1..n |-> i]            \* distinct contents 1..n
Vs(n) == [i \in 1..n |-> 40 + i]
\* ---- transcriptions ----
InsertT(sl, i, v) == SetAt(CopyS(AppendS(sl, <<v>>), i + 1, i), i, v)
InsertSliceT(sl, i, vs) == CopyIn(CopyS(AppendS(sl, vs), i + Len(vs), i), i, vs)
RemoveT(sl, i) == Reslice(CopyS(sl, i, i + 1), sl.len - 1)
RemoveSliceT(sl, i, n) == Reslice(CopyS(sl, i, i + n), sl.len - n)
\* slice[0] = v; for i := 1; i < len; i += i { copy(slice[i:], slice[:i]) }
RECURSIVE FillLoop(_, _)
FillLoop(sl, i) == IF i >= sl.len THEN sl ELSE FillLoop(CopyIn(sl, i, SubSeq(sl.arr, 1, i)), i + i)
FillT(sl, v) == IF sl.len = 0 THEN sl ELSE FillLoop(SetAt(sl, 0, v), 1)
\* for i, j := 0, len-1; i < len/2; i, j = i+1, j-1 { swap }
RECURSIVE RevLoop(_, _, _)
RevLoop(sl, i, j) == IF i >= sl.len \div 2 THEN sl ELSE RevLoop(SetAt(SetAt(sl, i, sl.arr[j + 1]), j, sl.arr[i + 1]), i + 1, j - 1)
ReverseT(sl) == RevLoop(sl, 0, sl.len - 1)
GrowT(sl, n) == AppendS(sl, [i \in 1..n |-> 0])
\* ---- definitions ----
SpliceIn(s, i, vs) == SubSeq(s, 1, i) \o vs \o SubSeq(s, i + 1, Len(s))
SpliceOut(s, i, n) == SubSeq(s, 1, i) \o SubSeq(s, i + n + 1, Len(s))
C0 == [op |-> "Reset", n |-> 0, spare |-> 0, i |-> 0, k |-> 0, res |-> <<>>]
Init == last = C0
Cell(o, n, sp, i, k) ==
  LET sl == Mk(Ids(n), sp, Junk) IN
  [op |-> o, n |-> n, spare |-> sp, i |-> i, k |-> k,
   res |-> CASE o = "Insert" -> Contents(InsertT(sl, i, 41))
             [] o = "InsertSlice" -> Contents(InsertSliceT(sl, i, Vs(k)))
             [] o = "Remove" -> Contents(RemoveT(sl, i))
             [] o = "RemoveSlice" -> Contents(RemoveSliceT(sl, i, k))
             [] o = "Fill" -> Contents(FillT(sl, 41))
             [] o = "Reverse" -> Contents(ReverseT(sl))
             [] o = "Grow" -> Contents(GrowT(sl, k))
             [] OTHER -> <<>>]
Next == last = C0 /\ \E n \in 0..MaxLen, sp \in 0..MaxSpare :
  \/ \E i \in 0..n : last' = Cell("Insert", n, sp, i, 1) \/ \E k \in 0..MaxIns : last' = Cell("InsertSlice", n, sp, i, k)
  \/ \E i \in 0..n - 1 : last' = Cell("Remove", n, sp, i, 1)
  \/ \E i \in 0..n, k \in 0..n : i + k <= n /\ last' = Cell("RemoveSlice", n, sp, i, k)
  \/ last' = Cell("Fill", n, sp, 0, 0) \/ last' = Cell("Reverse", n, sp, 0, 0)
  \/ \E k \in 0..MaxIns : last' = Cell("Grow", n, sp, 0, k)
Spec == Init /\ [][Next]_last
DefOK == LET s == Ids(last.n) IN
  CASE last.op = "Insert" -> last.res = SpliceIn(s, last.i, <<41>>)
    [] last.op = "InsertSlice" -> last.res = SpliceIn(s, last.i, Vs(last.k))
    [] last.op = "Remove" -> last.res = SpliceOut(s, last.i, 1)
    [] last.op = "RemoveSlice" -> last.res = SpliceOut(s, last.i, last.k)
    [] last.op = "Fill" -> last.res = [j \in 1..last.n |-> 41]
    [] last.op = "Reverse" -> last.res = [j \in 1..last.n |-> s[last.n + 1 - j]]
    [] last.op = "Grow" -> last.res = s \o [j \in 1..last.k |-> 0]
    [] OTHER -> TRUE
View == last
LogEdge == PrintT(<<"E", ToJson([f |-> last.op, t |-> last', op |-> last'])>>)
====
