---- MODULE Partition ----
(* C13: Chunk, Windowed, Pairs.  The code's index arithmetic (quotient /
   remainder, loop limits) is transcribed; TLC checks, for every length n and
   size in the bounds, that the transcription equals the property's
   characterisation, and enumerates the (function, n, size) cells as drivers. *)
EXTENDS Integers, Sequences, TLC, Json
CONSTANTS MaxN, MaxSize
VARIABLES last
In(n) == [i \in 1..n |-> i]
\* ---- transcription of slices.Chunk (intended arithmetic: one extra piece iff there is a remainder) ----
ChunkT(s, size) ==
  IF Len(s) = 0 THEN <<>> ELSE
  LET div == Len(s) \div size
      rounded == div * size
      lim == div + (IF rounded # Len(s) THEN 1 ELSE 0)
  IN [i \in 1..lim |-> IF i <= div THEN SubSeq(s, (i - 1) * size + 1, i * size) ELSE SubSeq(s, rounded + 1, Len(s))]
WindowedT(s, size) == IF Len(s) < size THEN <<>> ELSE [i \in 1..(Len(s) - size + 1) |-> SubSeq(s, i, i + size - 1)]
PairsT(s) == IF Len(s) < 2 THEN <<>> ELSE [i \in 1..(Len(s) - 1) |-> <<s[i], s[i + 1]>>]
\* ---- characterisation from the property statement ----
RECURSIVE Flat(_)
Flat(ps) == IF ps = <<>> THEN <<>> ELSE ps[1] \o Flat(Tail(ps))
Ceil(n, d) == (n + d - 1) \div d
ChunkOK(s, size, r) == /\ Len(r) = Ceil(Len(s), size) /\ Flat(r) = s
                       /\ \A i \in 1..Len(r) : Len(r[i]) >= 1 /\ (i < Len(r) => Len(r[i]) = size) /\ Len(r[i]) <= size
WindowedOK(s, size, r) == /\ Len(r) = (IF Len(s) < size THEN 0 ELSE Len(s) - size + 1)
                          /\ \A i \in 1..Len(r) : r[i] = SubSeq(s, i, i + size - 1)
PairsOK(s, r) == /\ Len(r) = (IF Len(s) < 2 THEN 0 ELSE Len(s) - 1)
                 /\ \A i \in 1..Len(r) : r[i] = <<s[i], s[i + 1]>>
Init == last = [op |-> "Reset", n |-> 0, size |-> 1, res |-> <<>>]
Case(f, n, size) == last.op = "Reset" /\ last' = [op |-> f, n |-> n, size |-> size,
    res |-> CASE f = "Chunk" -> ChunkT(In(n), size) [] f = "Windowed" -> WindowedT(In(n), size) [] OTHER -> PairsT(In(n))]
Next == \E f \in {"Chunk", "Windowed", "Pairs"}, n \in 0..MaxN, size \in 1..MaxSize : (f = "Pairs" => size = 1) /\ Case(f, n, size)
Spec == Init /\ [][Next]_last
DefOK == CASE last.op = "Chunk" -> ChunkOK(In(last.n), last.size, last.res)
           [] last.op = "Windowed" -> WindowedOK(In(last.n), last.size, last.res)
           [] last.op = "Pairs" -> PairsOK(In(last.n), last.res)
           [] OTHER -> TRUE
View == last
LogEdge == PrintT(<<"E", ToJson([f |-> last.op, t |-> <<last'.op, last'.n, last'.size>>, op |-> last'])>>)
====
