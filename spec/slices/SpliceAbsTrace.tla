---- MODULE SpliceAbsTrace ----
(* Abstract trace validator for C12.  Each line is one call: input contents s
   (with `spare` extra capacity holding junk), position i, count k, inserted
   values vs, second slice t, value v; res = contents of the slice afterwards
   (or of the returned slice). *)
EXTENDS TraceLib
CONSTANT Gate
VARIABLES l
vars == <<l>>
Ev == Trace[l]
SpliceIn(s, i, vs) == SubSeq(s, 1, i) \o vs \o SubSeq(s, i + 1, Len(s))
SpliceOut(s, i, n) == SubSeq(s, 1, i) \o SubSeq(s, i + n + 1, Len(s))
\* "exactly the sequence obtained by splicing the given value(s) in or out at the given position ... whatever spare capacity"
C_Splice(e) == CASE e.op = "Insert" -> e.res = SpliceIn(e.s, e.i, <<e.v>>)
                 [] e.op = "InsertSlice" -> e.res = SpliceIn(e.s, e.i, e.vs)
                 [] e.op = "Remove" -> e.res = SpliceOut(e.s, e.i, 1)
                 [] e.op = "RemoveSlice" -> e.res = SpliceOut(e.s, e.i, e.k)
                 [] OTHER -> TRUE
\* "Fill and Repeat set every element to the value for every length"
C_Fill(e) == CASE e.op = "Fill" -> e.res = [j \in 1..Len(e.s) |-> e.v]
               [] e.op = "Repeat" -> e.res = [j \in 1..e.k |-> e.v]
               [] OTHER -> TRUE
\* "Reverse reverses in place"
C_Reverse(e) == e.op = "Reverse" => e.res = [j \in 1..Len(e.s) |-> e.s[Len(e.s) + 1 - j]]
\* "Concat and Clone return the expected contents in a new slice that shares no memory with the inputs"
C_New(e) == CASE e.op = "Concat" -> e.res = e.s \o e.t /\ e.fresh1 = e.s \o e.t /\ e.fresh2 = e.res
              [] e.op = "Clone" -> e.res = e.s /\ e.fresh1 = e.s /\ e.fresh2 = e.res
              [] OTHER -> TRUE
\* "Grow appends exactly n zero values"
C_Grow(e) == e.op = "Grow" => e.res = e.s \o [j \in 1..e.k |-> 0]
\* the inserted values themselves are not modified
C_ArgsKept(e) == e.op = "InsertSlice" => e.vsafter = e.vs
C_NoPanic(e) == e.panic = ""
All(e) == C_Splice(e) /\ C_Fill(e) /\ C_Reverse(e) /\ C_New(e) /\ C_Grow(e) /\ C_ArgsKept(e) /\ C_NoPanic(e)
TInit == l = 1
Step == l <= Len(Trace) /\ l' = l + 1 /\ (Gate => All(Ev))
TSpec == TInit /\ [][Step]_vars
Obs == Trace[l - 1]
Chk == ~Gate /\ l > 1
I_NoPanic == Chk => C_NoPanic(Obs)
I_Splice == Chk => C_Splice(Obs)
I_Fill == Chk => C_Fill(Obs)
I_Reverse == Chk => C_Reverse(Obs)
I_New == Chk => C_New(Obs)
I_Grow == Chk => C_Grow(Obs)
I_ArgsKept == Chk => C_ArgsKept(Obs)
Track == TrackL(l)
Accepted == AcceptedP
====
