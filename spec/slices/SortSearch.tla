---- MODULE SortSearch ----
(* C15 case-enumerating model.  The wrappers are transcribed: sortOrdered /
   sortLess adaptors (Less(i,j) = s[i] < s[j] resp. less(s[i], s[j])),
   sort.Reverse (Less(i,j) = inner.Less(j,i)), sort.Stable as the stable
   insertion sort under the adaptor's Less, sort.Search as bisection.
   Elements of the *Func variants are key*10+tag with tag = original position
   and less comparing keys only, so stability is observable.  TLC checks that
   the transcription satisfies the property's clauses for every input in the
   bounds and enumerates the cells as drivers. *)
EXTENDS Integers, Sequences, FiniteSets, TLC, Json
CONSTANTS Keys, MaxLen, MaxSearchLen
VARIABLES last
KeyLess(a, b) == (a \div 10) < (b \div 10)
\* adaptor Less by variant: on values (not indices)
LessOf(op, a, b) == CASE op = "Sort" -> a < b
                      [] op = "SortDesc" -> b < a                 \* sort.Reverse(sortOrdered)
                      [] op \in {"SortFunc", "SortStableFunc"} -> KeyLess(a, b)
                      [] OTHER -> KeyLess(b, a)                    \* sort.Reverse(sortLess)
InsertAt(q, i, v) == SubSeq(q, 1, i) \o <<v>> \o SubSeq(q, i + 1, Len(q))
RECURSIVE StableT(_, _)
StableT(op, q) == IF q = <<>> THEN <<>> ELSE
   LET r == StableT(op, SubSeq(q, 1, Len(q) - 1))
       v == q[Len(q)]
       pos == Cardinality({i \in 1..Len(r) : ~LessOf(op, v, r[i])})   \* after everything not greater (r is sorted)
   IN InsertAt(r, pos, v)
RECURSIVE Bisect(_, _, _)
Bisect(i, j, f) == IF i < j THEN LET h == (i + j) \div 2 IN IF ~f[h + 1] THEN Bisect(h + 1, j, f) ELSE Bisect(i, h, f) ELSE i
SearchT(s, t) == Bisect(0, Len(s), [i \in 1..Len(s) |-> s[i] >= t])
Tagged(ks) == [i \in 1..Len(ks) |-> ks[i] * 10 + i]
Count(q, v) == Cardinality({i \in 1..Len(q) : q[i] = v})
Perm(a, b) == Len(a) = Len(b) /\ \A i \in 1..Len(a) : Count(a, a[i]) = Count(b, a[i])
Ordered(op, r) == \A i \in 1..Len(r) - 1 : ~LessOf(op, r[i + 1], r[i])
StableOK(op, r) == \A i, j \in 1..Len(r) : (i < j /\ ~LessOf(op, r[i], r[j]) /\ ~LessOf(op, r[j], r[i])) => (r[i] % 10) < (r[j] % 10)
C0 == [op |-> "Reset", s |-> <<>>, t |-> 0, res |-> <<>>, ri |-> 0]
Init == last = C0
KeySeqs == UNION {[1..n -> Keys] : n \in 0..MaxLen}
SortOps == {"Sort", "SortDesc", "SortFunc", "SortDescFunc", "SortStableFunc", "SortStableDescFunc"}
IsAsc(s) == \A i \in 1..Len(s) - 1 : s[i] <= s[i + 1]
SearchSeqs == {s \in UNION {[1..n -> 1..4] : n \in 0..MaxSearchLen} : IsAsc(s)}
Next == last = C0 /\
  \/ \E op \in SortOps, ks \in KeySeqs :
        LET s == IF op \in {"Sort", "SortDesc"} THEN ks ELSE Tagged(ks) IN
        last' = [C0 EXCEPT !.op = op, !.s = s, !.res = StableT(op, s)]     \* a stable sort is one admissible outcome of sort.Sort
  \/ \E op \in {"BinarySearch", "BinarySearchFunc"}, s \in SearchSeqs, t \in 0..5 :
        last' = [C0 EXCEPT !.op = op, !.s = s, !.t = t, !.ri = SearchT(s, t)]
Spec == Init /\ [][Next]_last
PropOK == CASE last.op \in SortOps -> /\ Perm(last.s, last.res) /\ Ordered(last.op, last.res)
                                      /\ (last.op \in {"SortStableFunc", "SortStableDescFunc"} => StableOK(last.op, last.res))
            [] last.op \in {"BinarySearch", "BinarySearchFunc"} ->
                 /\ last.ri \in 0..Len(last.s)
                 /\ \A i \in 1..last.ri : last.s[i] < last.t
                 /\ (last.ri < Len(last.s) => last.s[last.ri + 1] >= last.t)
            [] OTHER -> TRUE
View == last
LogEdge == PrintT(<<"E", ToJson([f |-> last.op, t |-> last', op |-> last'])>>)
====
