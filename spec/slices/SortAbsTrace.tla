---- MODULE SortAbsTrace ----
(* Abstract trace validator for C15.  Elements of the *Func variants are
   key*10+tag (tag < 10 for short inputs) or key*1000+tag (long inputs), the
   divisor is logged as `d`; less compares keys only. *)
EXTENDS TraceLib, FiniteSets
CONSTANT Gate
VARIABLES l
vars == <<l>>
Ev == Trace[l]
Key(e, v) == v \div e.d
Tag(e, v) == v % e.d
Plain(e) == e.op \in {"Sort", "SortDesc"}
Desc(e) == e.op \in {"SortDesc", "SortDescFunc", "SortStableDescFunc"}
IsSort(e) == e.op \in {"Sort", "SortDesc", "SortFunc", "SortDescFunc", "SortStableFunc", "SortStableDescFunc"}
\* the order the caller asked for, on values
Lt(e, a, b) == IF Plain(e) THEN a < b ELSE Key(e, a) < Key(e, b)
Count(q, v) == Cardinality({i \in 1..Len(q) : q[i] = v})
\* "leave the slice a permutation of its former contents"
C_Perm(e) == (IsSort(e) \/ e.op \in {"Shuffle", "ShuffleRand"}) =>
                Len(e.res) = Len(e.s) /\ \A i \in 1..Len(e.s) : Count(e.res, e.s[i]) = Count(e.s, e.s[i])
\* "ordered ascending (or descending) under < or the given less function"
C_Order(e) == IsSort(e) => \A i \in 1..Len(e.res) - 1 :
                 IF Desc(e) THEN ~Lt(e, e.res[i], e.res[i + 1]) ELSE ~Lt(e, e.res[i + 1], e.res[i])
\* "the two Stable variants keep elements that the order cannot distinguish in their original relative order"
C_Stable(e) == e.op \in {"SortStableFunc", "SortStableDescFunc"} =>
                 \A i \in 1..Len(e.res) - 1 : Key(e, e.res[i]) = Key(e, e.res[i + 1]) => Tag(e, e.res[i]) < Tag(e, e.res[i + 1])
\* "return the smallest index whose element is not less than the target (len when there is none)"
C_Search(e) == e.op \in {"BinarySearch", "BinarySearchFunc"} =>
                 /\ e.ri >= 0 /\ e.ri <= Len(e.s)
                 /\ \A i \in 1..e.ri : e.s[i] < e.t
                 /\ (e.ri < Len(e.s) => e.s[e.ri + 1] >= e.t)
                 /\ e.res = e.s
\* "ShuffleRand is a deterministic function of the supplied generator"
C_ShuffleDet(e) == e.op = "ShuffleRand" => e.res2 = e.res
\* Thousands of elements (op BigSort): input element i (0 <= i < n) has key ((i*a+b) mod m) + 1; the Func variants sort key*d+i
\* with a key-only less.  The result is logged losslessly as runs (see the driver); a correct result has one run per key.
BKey(e, i) == ((i * e.a + e.b) % e.m) + 1
BIdx(e, k) == {i \in 0..e.n - 1 : BKey(e, i) = k}
BKeys(e) == {k \in 1..e.m : BIdx(e, k) # {}}
BDesc(e) == e.variant \in {"SortDesc", "SortDescFunc", "SortStableDescFunc"}
RECURSIVE SumS(_)
SumS(S) == IF S = {} THEN 0 ELSE LET x == CHOOSE y \in S : TRUE IN x + SumS(S \ {x})
SetMin(S) == CHOOSE x \in S : \A y \in S : x <= y
\* the keys in the order asked for
RECURSIVE KeySeq(_, _)
KeySeq(S, desc) == IF S = {} THEN <<>> ELSE
   LET k == IF desc THEN CHOOSE x \in S : \A y \in S : x >= y ELSE SetMin(S) IN <<k>> \o KeySeq(S \ {k}, desc)
C_Big(e) == e.op = "BigSort" =>
   LET ks == KeySeq(BKeys(e), BDesc(e)) IN
   /\ e.len = e.n /\ Len(e.runs) = Len(ks)
   /\ \A j \in 1..Len(ks) :
        LET k == ks[j]  I == BIdx(e, k)  r == e.runs[j] IN
        CASE e.variant \in {"Sort", "SortDesc"} -> r = <<k, Cardinality(I)>>
          [] e.variant \in {"SortStableFunc", "SortStableDescFunc"} ->
               \* the indices of one key form an arithmetic progression (a is invertible modulo m): first element, step, count
               r = <<k * e.d + SetMin(I), IF Cardinality(I) = 1 THEN 0 ELSE e.m, Cardinality(I)>>
          [] OTHER -> r[1] = k /\ r[2] = Cardinality(I) /\ r[3] = SumS(I)
C_NoPanic(e) == e.panic = ""
All(e) == C_Big(e) /\ C_Perm(e) /\ C_Order(e) /\ C_Stable(e) /\ C_Search(e) /\ C_ShuffleDet(e) /\ C_NoPanic(e)
TInit == l = 1
Step == l <= Len(Trace) /\ l' = l + 1 /\ (Gate => All(Ev))
TSpec == TInit /\ [][Step]_vars
Obs == Trace[l - 1]
Chk == ~Gate /\ l > 1
I_NoPanic == Chk => C_NoPanic(Obs)
I_Perm == Chk => C_Perm(Obs)
I_Order == Chk => C_Order(Obs)
I_Stable == Chk => C_Stable(Obs)
I_Search == Chk => C_Search(Obs)
I_ShuffleDet == Chk => C_ShuffleDet(Obs)
I_Big == Chk => C_Big(Obs)
Track == TrackL(l)
Accepted == AcceptedP
====
