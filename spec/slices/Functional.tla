---- MODULE Functional ----
(* C14 case-enumerating model.  TLC enumerates every (helper, input, callback
   parameter) cell inside the bounds; for the helpers whose code has a loop
   with threaded state the loop is transcribed (index walk + state variable)
   and TLC checks transcription = reference definition (invariant LoopsOK).
   The enumerated cells, with the expected results, are the drivers. *)
EXTENDS FuncDefs, TLC, Json
CONSTANTS Vals, MaxLen
VARIABLES last
Slices == UNION {[1..n -> Vals] : n \in 0..MaxLen}
C0 == [op |-> "Reset", s |-> <<>>, a |-> 0, b |-> 0, aux |-> <<>>, fam |-> ""]
Init == last = C0
Fams == {"eq", "ne", "gt"}
Auxes == {<<>>, <<1>>, <<2, 3>>, <<1, 1, 3>>}
Cells(s) ==
     {[C0 EXCEPT !.op = o, !.s = s, !.fam = "rec", !.aux = x] : o \in {"Fold", "FoldReverse"}, x \in {<<>>, <<7>>}}
  \cup {[C0 EXCEPT !.op = o, !.s = s, !.fam = "dec", !.aux = <<x>>] : o \in {"Fold", "FoldReverse"}, x \in {0, 5}}
  \cup {[C0 EXCEPT !.op = "Map", !.s = s, !.fam = f] : f \in {"x10", "neg"}}
  \cup {[C0 EXCEPT !.op = o, !.s = s, !.fam = f, !.a = c] : o \in {"MapErr", "Filter", "Any", "All", "IndexFunc", "TrimFunc", "TrimLeftFunc", "TrimRightFunc"},
                                                           f \in Fams, c \in Vals \cup {0}}
  \cup {[C0 EXCEPT !.op = o, !.s = s, !.a = c] : o \in {"Index", "Contains"}, c \in Vals \cup {0}}
  \cup {[C0 EXCEPT !.op = "ContainsFunc", !.s = s, !.a = c, !.fam = f] : c \in Vals \cup {0}, f \in {"eq", "mod2"}}
  \cup {[C0 EXCEPT !.op = "Distinct", !.s = s]}
  \cup {[C0 EXCEPT !.op = "DistinctFunc", !.s = s, !.fam = f] : f \in {"eq", "mod2"}}
  \cup {[C0 EXCEPT !.op = o, !.s = s, !.aux = x] : o \in {"Except", "ExceptSetM", "ExceptSetS", "Trim", "TrimLeft", "TrimRight"}, x \in Auxes}
  \cup {[C0 EXCEPT !.op = o, !.s = s, !.fam = f] : o \in {"GroupBy", "CountBy"}, f \in {"mod2", "id", "const"}}
  \cup {[C0 EXCEPT !.op = o, !.s = s, !.a = i, !.b = 42] : o \in {"TryGet", "SafeGet", "SafeGetOr"}, i \in -1..Len(s)}
  \cup {[C0 EXCEPT !.op = "Last", !.s = s]}
Case(c) == last = C0 /\ last' = c
Next == \E s \in Slices : \E c \in Cells(s) : Case(c)
Spec == Init /\ [][Next]_last
\* ---- transcriptions of the loops ----
\* for _, v := range slice { state = acc(state, v) }
RECURSIVE FoldLoop(_, _, _, _)
FoldLoop(fam, state, s, i) == IF i > Len(s) THEN state ELSE FoldLoop(fam, Acc(fam, state, s[i]), s, i + 1)
\* for i := len(slice)-1; i >= 0; i-- { state = acc(state, slice[i]) }
RECURSIVE FoldRevLoop(_, _, _, _)
FoldRevLoop(fam, state, s, i) == IF i < 1 THEN state ELSE FoldRevLoop(fam, Acc(fam, state, s[i]), s, i - 1)
\* GroupBy: m[key] = append(m[key], v); orderedKeys appended on first sight
RECURSIVE GroupLoop(_, _, _, _, _)
GroupLoop(fam, keys, m, s, i) == IF i > Len(s) THEN [j \in 1..Len(keys) |-> <<keys[j], m[keys[j]]>>] ELSE
   LET k == KeyOfV(fam, s[i]) IN
   IF k \in DOMAIN m THEN GroupLoop(fam, keys, [m EXCEPT ![k] = Append(@, s[i])], s, i + 1)
   ELSE GroupLoop(fam, Append(keys, k), m @@ (k :> <<s[i]>>), s, i + 1)
LoopsOK == CASE last.op = "Fold" -> FoldLoop(last.fam, last.aux, last.s, 1) = Expect(last).rs
             [] last.op = "FoldReverse" -> FoldRevLoop(last.fam, last.aux, last.s, Len(last.s)) = Expect(last).rs
             [] last.op = "GroupBy" -> GroupLoop(last.fam, <<>>, <<>>, last.s, 1) = Expect(last).rg
             [] OTHER -> TRUE
\* sanity of the definitions themselves: group sizes sum to n, Distinct has no duplicates, Filter/Except are subsequences
DefsSane == LET s == last.s IN
  /\ (last.op = "CountBy" => LET c == Expect(last).rs IN
        Len(s) = (IF c = <<>> THEN 0 ELSE LET RECURSIVE Sum(_) Sum(i) == IF i > Len(c) THEN 0 ELSE c[i] + Sum(i + 2) IN Sum(2)))
  /\ (last.op = "Distinct" => LET d == Expect(last).rs IN Cardinality(Elems(d)) = Len(d) /\ Elems(d) = Elems(s))
View == last
LogEdge == PrintT(<<"E", ToJson([f |-> last.op, t |-> last', op |-> last' @@ [x |-> Expect(last')]])>>)
====
