---- MODULE Big ----
(* Signed decimal numbers as digit sequences, because TLC integers are 32-bit
   and C20 quantifies over 64-bit types.  A number is [n |-> negative?, d |->
   <<most significant digit, ..., least>>], normalised: no leading zeros, zero
   is non-negative <<0>>.  The number of decimal digits of |v| is Len(v.d) by
   construction. *)
EXTENDS Integers, Sequences
BZero == [n |-> FALSE, d |-> <<0>>]
BOne == [n |-> FALSE, d |-> <<1>>]
MagLess(x, y) == \/ Len(x) < Len(y)
                 \/ Len(x) = Len(y) /\ \E i \in 1..Len(x) : x[i] < y[i] /\ \A j \in 1..i - 1 : x[j] = y[j]
BLess(a, b) == IF a.n /\ ~b.n THEN TRUE ELSE IF ~a.n /\ b.n THEN FALSE
               ELSE IF ~a.n THEN MagLess(a.d, b.d) ELSE MagLess(b.d, a.d)
BLeq(a, b) == a = b \/ BLess(a, b)
BMax(a, b) == IF BLess(a, b) THEN b ELSE a
BMin(a, b) == IF BLess(a, b) THEN a ELSE b
RECURSIVE MagSucc(_)
MagSucc(x) == IF x = <<>> THEN <<1>>
              ELSE IF x[Len(x)] < 9 THEN [x EXCEPT ![Len(x)] = @ + 1]
              ELSE Append(MagSucc(SubSeq(x, 1, Len(x) - 1)), 0)
RECURSIVE Strip(_)
Strip(x) == IF Len(x) > 1 /\ x[1] = 0 THEN Strip(Tail(x)) ELSE x
RECURSIVE MagPredRaw(_)
MagPredRaw(x) == IF x[Len(x)] > 0 THEN [x EXCEPT ![Len(x)] = @ - 1]
                 ELSE Append(MagPredRaw(SubSeq(x, 1, Len(x) - 1)), 9)
MagPred(x) == Strip(MagPredRaw(x))              \* x > 0
BSucc(a) == IF ~a.n THEN [n |-> FALSE, d |-> MagSucc(a.d)]
            ELSE IF a.d = <<1>> THEN BZero ELSE [n |-> TRUE, d |-> MagPred(a.d)]
BNeg(a) == IF a.d = <<0>> THEN a ELSE [a EXCEPT !.n = ~a.n]
BPred(a) == BNeg(BSucc(BNeg(a)))
BAbs(a) == [a EXCEPT !.n = FALSE]
BDigits(a) == Len(a.d)
\* doubling of a magnitude, for powers of two
RECURSIVE MagDoubleC(_, _)
MagDoubleC(x, carry) == IF x = <<>> THEN (IF carry = 0 THEN <<>> ELSE <<carry>>)
   ELSE LET v == 2 * x[Len(x)] + carry IN Append(MagDoubleC(SubSeq(x, 1, Len(x) - 1), v \div 10), v % 10)
RECURSIVE Pow2(_)
Pow2(k) == IF k = 0 THEN <<1>> ELSE MagDoubleC(Pow2(k - 1), 0)
TMax(bits, sg) == [n |-> FALSE, d |-> MagPred(Pow2(IF sg THEN bits - 1 ELSE bits))]
TMin(bits, sg) == IF sg THEN [n |-> TRUE, d |-> Pow2(bits - 1)] ELSE BZero
Pow10(k) == [n |-> FALSE, d |-> <<1>> \o [i \in 1..k |-> 0]]      \* 10^k
Nines(k) == [n |-> FALSE, d |-> [i \in 1..k |-> 9]]               \* 10^k - 1, k >= 1
FromInt(i) == LET RECURSIVE Dg(_) Dg(m) == IF m < 10 THEN <<m>> ELSE Append(Dg(m \div 10), m % 10)
              IN IF i < 0 THEN [n |-> TRUE, d |-> Dg(0 - i)] ELSE [n |-> FALSE, d |-> Dg(i)]
====
