---- MODULE Num ----
(* Definitions of the numeric helpers (C20).
   Part 1: over TLA+ integers with Go's fixed-width wrap-around, for the 8-bit
   exhaustive pairs.  Part 2: piecewise definitions over Big numbers for the
   single-argument functions on every integer type (Digits10, DigitsSign10,
   Abs, Clamp01) and for Clamp(.,lo,hi): a piece is [from, to, kind, c] with
   kind "const" (value c), "id" (value v), "neg" (value -v) or "any"
   (unconstrained: Abs at the minimum of a signed type, where the magnitude is
   not representable). *)
EXTENDS Big
Pow2i(k) == LET RECURSIVE P(_) P(j) == IF j = 0 THEN 1 ELSE 2 * P(j - 1) IN P(k)
Wrap(x, bits, sg) == IF sg THEN ((x + Pow2i(bits - 1)) % Pow2i(bits)) - Pow2i(bits - 1) ELSE x % Pow2i(bits)
MinOf(v) == CHOOSE m \in {v[i] : i \in 1..Len(v)} : \A i \in 1..Len(v) : m <= v[i]
MaxOf(v) == CHOOSE m \in {v[i] : i \in 1..Len(v)} : \A i \in 1..Len(v) : m >= v[i]
RECURSIVE SumW(_, _, _), ProdW(_, _, _)
SumW(v, bits, sg) == IF v = <<>> THEN 0 ELSE Wrap(SumW(SubSeq(v, 1, Len(v) - 1), bits, sg) + v[Len(v)], bits, sg)
ProdW(v, bits, sg) == IF v = <<>> THEN 1 ELSE Wrap(ProdW(SubSeq(v, 1, Len(v) - 1), bits, sg) * v[Len(v)], bits, sg)
CompareOf(a, b) == IF a > b THEN 1 ELSE IF a < b THEN -1 ELSE 0
ClampOf(v, lo, hi) == IF v < lo THEN lo ELSE IF v > hi THEN hi ELSE v
\* ---- Part 2: pieces ----
Piece(f, t, k, c) == [from |-> f, to |-> t, kind |-> k, c |-> c]
Clip(p, lo, hi) == [p EXCEPT !.from = BMax(p.from, lo), !.to = BMin(p.to, hi)]
NonEmpty(p) == BLeq(p.from, p.to)
DigitPieces(signAdds) ==
   {Piece(IF k = 1 THEN BZero ELSE Pow10(k - 1), Nines(k), "const", FromInt(k)) : k \in 1..20}
   \cup {Piece(BNeg(Nines(k)), BNeg(IF k = 1 THEN BOne ELSE Pow10(k - 1)), "const", FromInt(k + signAdds)) : k \in 1..20}
DefPieces(fn, bits, sg, lo, hi) ==
  LET tmin == TMin(bits, sg)  tmax == TMax(bits, sg)
      raw == CASE fn = "Digits10" -> DigitPieces(0)
               [] fn = "DigitsSign10" -> DigitPieces(1)
               [] fn = "Abs" -> {Piece(BZero, tmax, "id", BZero)} \cup
                                (IF sg THEN {Piece(BSucc(tmin), BNeg(BOne), "neg", BZero), Piece(tmin, tmin, "any", BZero)} ELSE {})
               [] fn = "Clamp01" -> {Piece(tmin, BNeg(BOne), "const", BZero), Piece(BZero, BOne, "id", BZero), Piece(BSucc(BOne), tmax, "const", BOne)}
               [] fn = "Clamp" -> {Piece(tmin, BPred(lo), "const", lo), Piece(lo, hi, "id", BZero), Piece(BSucc(hi), tmax, "const", hi)}
               [] OTHER -> {}
  IN {q \in {Clip(p, tmin, tmax) : p \in raw} : NonEmpty(q)}
ValOf(p, v) == CASE p.kind = "const" -> p.c [] p.kind = "id" -> v [] p.kind = "neg" -> BNeg(v) [] OTHER -> v
\* a recorded run table equals the piecewise definition: the runs tile the type's range and every run
\* agrees with every definition piece at both ends of their overlap (both are affine with slope 0, 1 or -1
\* there, so agreement at the two ends is agreement on the whole overlap)
Tiles(runs, bits, sg) == /\ Len(runs) >= 1 /\ runs[1].from = TMin(bits, sg) /\ runs[Len(runs)].to = TMax(bits, sg)
                         /\ \A i \in 1..Len(runs) : BLeq(runs[i].from, runs[i].to)
                         /\ \A i \in 1..Len(runs) - 1 : BSucc(runs[i].to) = runs[i + 1].from
Agrees(runs, pieces) == \A i \in 1..Len(runs) : \A p \in pieces :
   LET lo == BMax(runs[i].from, p.from)  hi == BMin(runs[i].to, p.to) IN
   BLeq(lo, hi) => (p.kind = "any" \/ (ValOf(runs[i], lo) = ValOf(p, lo) /\ ValOf(runs[i], hi) = ValOf(p, hi)))
TableOK(fn, bits, sg, lo, hi, runs) == Tiles(runs, bits, sg) /\ Agrees(runs, DefPieces(fn, bits, sg, lo, hi))
\* a single recorded point
PointOK(fn, bits, sg, lo, hi, v, r) == \E p \in DefPieces(fn, bits, sg, lo, hi) :
   BLeq(p.from, v) /\ BLeq(v, p.to) /\ (p.kind = "any" \/ r = ValOf(p, v))
====
