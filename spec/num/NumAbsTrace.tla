---- MODULE NumAbsTrace ----
(* Abstract trace validator for C20.  Line kinds:
   pair   all six two-argument results for one pair of values of a narrow integer type
   vari   Min/Max/Sum/Product of 0..3 arguments
   table  the complete graph of a single-argument function (or of Clamp(.,lo,hi)) over a whole
          integer type, as maximal runs [from,to,kind,c] over Big numbers
   point  one value of such a function (boundary samples of the wide types)
   rank   order-based functions on an order-embedded sample of a float or string type (arguments and
          results are positions in the ascending sample; -1 = result not in the sample)
   util   the language-level helpers, against a table *)
EXTENDS Num, TraceLib
CONSTANT Gate
VARIABLES l
vars == <<l>>
Ev == Trace[l]
\* "Min and Max return an argument that is <= (>=) all the others"
C_MinMax(e) == CASE e.op = "pair" -> e.min = MinOf(<<e.a, e.b>>) /\ e.max = MaxOf(<<e.a, e.b>>)
                 [] e.op = "vari" /\ Len(e.v) > 0 -> e.min = MinOf(e.v) /\ e.max = MaxOf(e.v)
                 [] e.op = "rank" -> e.min = MinOf(<<e.a, e.b, e.c>>) /\ e.max = MaxOf(<<e.a, e.b, e.c>>)
                 [] OTHER -> TRUE
\* "Sum and Product equal left-to-right (wrapping) + and * with 0 and 1 for no arguments"
C_SumProd(e) == CASE e.op = "pair" -> e.sum = SumW(<<e.a, e.b>>, e.bits, e.sg) /\ e.prod = ProdW(<<e.a, e.b>>, e.bits, e.sg)
                  [] e.op = "vari" -> e.sum = SumW(e.v, e.bits, e.sg) /\ e.prod = ProdW(e.v, e.bits, e.sg)
                  [] OTHER -> TRUE
\* "Compare and Less agree with the built-in operators"
C_Compare(e) == e.op \in {"pair", "rank"} => e.cmp = CompareOf(e.a, e.b) /\ e.less = (e.a < e.b)
\* "Clamp(v,lo,hi) with lo <= hi returns v when lo <= v <= hi and the nearer bound otherwise" (rank lines: a clamped to [min(b,c), max(b,c)])
C_ClampRank(e) == e.op = "rank" => e.clamp = ClampOf(e.a, MinOf(<<e.b, e.c>>), MaxOf(<<e.b, e.c>>))
                                   /\ (e.r0 >= 0 /\ e.r1 >= 0 => e.clamp01 = ClampOf(e.a, e.r0, e.r1))
\* whole-type tables and points of Digits10 / DigitsSign10 / Abs / Clamp01 / Clamp
C_Table(e) == e.op = "table" => TableOK(e.fn, e.bits, e.sg, e.lo, e.hi, e.runs)
C_Point(e) == e.op = "point" => PointOK(e.fn, e.bits, e.sg, e.lo, e.hi, e.v, e.r)
\* Coal, Tern, TernCast, Zero, ZeroOf, IsZero, Ref, DerefZero, IsNil
FirstNonZero(v) == IF \E i \in 1..Len(v) : v[i] # 0 THEN v[CHOOSE i \in 1..Len(v) : v[i] # 0 /\ \A j \in 1..i - 1 : v[j] = 0] ELSE 0
C_Util(e) == e.op = "util" =>
   CASE e.name = "Coal" -> e.r = FirstNonZero(e.v)
     [] e.name \in {"Tern", "TernCast"} -> e.r = (IF e.cond THEN e.v[1] ELSE e.v[2])
     [] e.name \in {"Zero", "ZeroOf"} -> e.r = 0
     [] e.name = "IsZero" -> e.rb = (e.v[1] = 0 \/ e.kind \in {"zeroer-true", "ptr-zeroer"})   \* the zero value is zero; else an IsZero method is honoured
     [] e.name = "RefDeref" -> e.r = e.v[1] /\ e.rb                           \* *Ref(v) = v, and two Refs are distinct pointers
     [] e.name = "DerefZero" -> e.r = (IF e.kind = "nil" THEN 0 ELSE e.v[1])
     [] e.name = "IsNil" -> e.rb = (e.kind \in {"nil-any", "nil-error"})      \* typed nil pointer inside an interface is not nil
     [] OTHER -> FALSE
\* floating and complex types: "Sum and Product equal left-to-right + and *" -- the built-in operators are the primitives,
\* the recorded left-to-right fold must have the identical bit pattern (NaN results are excluded)
NaNBits(b) == \E i \in 1..Len(b) : b[i] = -1
C_FloatSum(e) == e.op = "fsum" => /\ (~NaNBits(e.lrsum) => e.sum = e.lrsum)
                                  /\ (~NaNBits(e.lrprod) => e.prod = e.lrprod)
C_NoPanic(e) == e.panic = (IF e.op = "vari" /\ Len(e.v) = 0 THEN "minmax" ELSE "")   \* Min()/Max() with no argument panic (documented)
All(e) == C_FloatSum(e) /\ C_MinMax(e) /\ C_SumProd(e) /\ C_Compare(e) /\ C_ClampRank(e) /\ C_Table(e) /\ C_Point(e) /\ C_Util(e) /\ C_NoPanic(e)
TInit == l = 1
Step == l <= Len(Trace) /\ l' = l + 1 /\ (Gate => All(Ev))
TSpec == TInit /\ [][Step]_vars
Obs == Trace[l - 1]
Chk == ~Gate /\ l > 1
I_NoPanic == Chk => C_NoPanic(Obs)
I_MinMax == Chk => C_MinMax(Obs)
I_SumProd == Chk => C_SumProd(Obs)
I_Compare == Chk => C_Compare(Obs)
I_ClampRank == Chk => C_ClampRank(Obs)
I_Table == Chk => C_Table(Obs)
I_Point == Chk => C_Point(Obs)
I_Util == Chk => C_Util(Obs)
I_FloatSum == Chk => C_FloatSum(Obs)
Track == TrackL(l)
Accepted == AcceptedP
====
