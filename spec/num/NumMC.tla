---- MODULE NumMC ----
(* Design-level check of the C20 definitions: TLC enumerates every pair of
   8-bit values (signed and unsigned) and every 16-bit value and checks that the
   definitions have the properties the statement demands (Min/Max bound the
   arguments and are arguments, Clamp lands in [lo,hi] and is the identity
   inside, wrap-around stays in range), and that the two independent
   definitions of Digits10 -- digit-sequence length and the piecewise table --
   agree on every 16-bit value. *)
EXTENDS Num, TLC
CONSTANTS Bits, BFull
VARIABLES a, b, sg
Rng(s) == IF s THEN (0 - Pow2i(Bits - 1))..(Pow2i(Bits - 1) - 1) ELSE 0..(Pow2i(Bits) - 1)
Init == sg \in BOOLEAN /\ a \in Rng(sg) /\ b \in (IF BFull THEN Rng(sg) ELSE {0, 1, 100})
Next == UNCHANGED <<a, b, sg>>
Spec == Init /\ [][Next]_<<a, b, sg>>
MinMaxOK == LET m == MinOf(<<a, b>>) x == MaxOf(<<a, b>>) IN m \in {a, b} /\ x \in {a, b} /\ m <= a /\ m <= b /\ x >= a /\ x >= b
WrapOK == SumW(<<a, b>>, Bits, sg) \in Rng(sg) /\ ProdW(<<a, b>>, Bits, sg) \in Rng(sg)
          /\ (SumW(<<a, b>>, Bits, sg) - (a + b)) % Pow2i(Bits) = 0
ClampOK == LET lo == MinOf(<<a, b>>) hi == MaxOf(<<a, b>>) IN
           \A v \in {lo - 1, lo, a, b, hi, hi + 1} \cap Rng(sg) :
              LET c == ClampOf(v, lo, hi) IN c >= lo /\ c <= hi /\ (v >= lo /\ v <= hi => c = v)
DigitsAgree == b = 0 => PointOK("Digits10", Bits, sg, BZero, BZero, FromInt(a), FromInt(BDigits(FromInt(a))))
               /\ PointOK("DigitsSign10", Bits, sg, BZero, BZero, FromInt(a), FromInt(BDigits(FromInt(a)) + (IF a < 0 THEN 1 ELSE 0)))
BigOK == (b \in {-1, 0, 1, 100} \cap Rng(sg)) =>
         /\ (a < b) = BLess(FromInt(a), FromInt(b))
         /\ (a + 1 \in Rng(sg) => BSucc(FromInt(a)) = FromInt(a + 1))
         /\ BNeg(FromInt(a)) = FromInt(0 - a)
         /\ FromInt(Pow2i(Bits) - 1) = TMax(Bits, FALSE) /\ FromInt(0 - Pow2i(Bits - 1)) = TMin(Bits, TRUE)
====
