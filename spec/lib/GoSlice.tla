---- MODULE GoSlice ----
(* A small model of Go slices for the helpers that splice in place (C12):
   a slice value is [arr, len]: its backing array (a sequence of cap values;
   positions beyond len hold whatever was there) and its length.
   AppendS is Go's append (in place iff the capacity suffices, else a fresh,
   larger array), CopyS is the built-in copy within one slice with memmove
   semantics (all reads happen before all writes). *)
EXTENDS Integers, Sequences
Cap(sl) == Len(sl.arr)
Contents(sl) == SubSeq(sl.arr, 1, sl.len)
Mk(contents, spare, junk) == [arr |-> contents \o [i \in 1..spare |-> junk], len |-> Len(contents)]
Min2(a, b) == IF a < b THEN a ELSE b
AppendS(sl, vs) ==
  IF sl.len + Len(vs) <= Cap(sl)
  THEN [arr |-> [i \in 1..Cap(sl) |-> IF i > sl.len /\ i <= sl.len + Len(vs) THEN vs[i - sl.len] ELSE sl.arr[i]],
        len |-> sl.len + Len(vs)]
  ELSE LET n == sl.len + Len(vs)  newcap == IF 2 * Cap(sl) > n THEN 2 * Cap(sl) ELSE n IN   \* growth policy: any cap >= n
       [arr |-> Contents(sl) \o vs \o [i \in 1..(newcap - n) |-> 0], len |-> n]
\* copy(s[d:], s[f:])   (0-based offsets into the same slice, both <= len)
CopyS(sl, d, f) ==
  LET n == Min2(sl.len - d, sl.len - f) IN
  [sl EXCEPT !.arr = [i \in 1..Cap(sl) |-> IF i > d /\ i <= d + n THEN sl.arr[f + (i - d)] ELSE sl.arr[i]]]
\* copy(s[d:], src)  from another slice's contents
CopyIn(sl, d, src) ==
  LET n == Min2(sl.len - d, Len(src)) IN
  [sl EXCEPT !.arr = [i \in 1..Cap(sl) |-> IF i > d /\ i <= d + n THEN src[i - d] ELSE sl.arr[i]]]
SetAt(sl, i, v) == [sl EXCEPT !.arr[i + 1] = v]          \* s[i] = v, 0-based
Reslice(sl, n) == [sl EXCEPT !.len = n]                   \* s[:n]
====
