---- MODULE TraceLib ----
(* Shared plumbing of every trace validator (DESIGN.md section 3).
   The recorded trace is an ndjson file named by the environment variable
   TRACE_FILE; a validator consumes it line by line through a position
   variable.  Acceptance is decided by a high-water mark kept in TLC register
   1 (updated from a CONSTRAINT, needs -workers 1): the trace is accepted iff
   some behaviour of the validator consumed every line.  The mark is printed
   so that the runner can name the first line that could not be explained. *)
EXTENDS Integers, Sequences, TLC, Json, IOUtils
Trace == ndJsonDeserialize(IOEnv.TRACE_FILE)
ASSUME TLCSet(1, 0)
TrackL(pos) == IF pos > TLCGet(1) THEN TLCSet(1, pos) ELSE TRUE
AcceptedP == /\ PrintT(<<"HWM", TLCGet(1), Len(Trace)>>)
             /\ TLCGet(1) = Len(Trace) + 1
====
