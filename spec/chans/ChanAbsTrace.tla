---- MODULE ChanAbsTrace ----
(* Abstract trace validator for C19: each line is one scenario run on real
   channels.  Values 1..fill are queued before the call; a sending call offers
   the value 9; a peer sender offers 8.  got = what the call returned, rest =
   what was drained from the channel afterwards, peergot = what a peer receiver
   received.  Where timer and peer race, either outcome is accepted and only
   conservation is demanded. *)
EXTENDS TraceLib, FiniteSets
CONSTANT Gate
VARIABLES l
vars == <<l>>
Ev == Trace[l]
Vals(a, b) == [i \in 1..(b - a + 1) |-> a + i - 1]
Elems(q) == {q[i] : i \in 1..Len(q)}
Count(q, v) == Cardinality({i \in 1..Len(q) : q[i] = v})
Min(a, b) == IF a < b THEN a ELSE b
IsQueued(e) == e.op \in {"RecvQueued", "RecvQueuedFull"}
IsSend(e) == e.op \in {"SendTimeout", "SendContext"}
IsRecv(e) == e.op \in {"RecvTimeout", "RecvContext"}
\* "RecvQueued and RecvQueuedFull never block"
C_NeverBlocks(e) == IsQueued(e) => ~e.blocked
\* "return, in FIFO order, exactly the values that were already queued, up to the given limit, stopping at a closed and
\*  drained channel without adding anything that was never sent"
C_Queued(e) == (IsQueued(e) /\ e.pending = 0) =>
                 /\ e.got = Vals(1, Min(e.limit, e.fill)) /\ e.rest = Vals(Len(e.got) + 1, e.fill)
                 /\ (e.op = "RecvQueuedFull" => e.n = Len(e.got) /\ \A i \in (e.n + 1)..Len(e.bufafter) : e.bufafter[i] = -7)
\* with senders parked on the channel only conservation is demanded: nothing lost, duplicated or invented, queued order kept
C_QueuedPending(e) == (IsQueued(e) /\ e.pending > 0) =>
                 LET all == e.got \o e.rest IN
                 /\ Len(e.got) <= e.limit /\ \A v \in Elems(all) : v \in 1..(e.fill + e.pending) /\ Count(all, v) = 1
                 /\ \A v \in 1..e.fill : v \in Elems(all)
                 /\ SubSeq(all, 1, Min(e.fill, Len(all))) = Vals(1, Min(e.fill, Len(all)))
\* what the scenario makes certain
Immediate(e) == IF IsSend(e) THEN e.fill < e.cap \/ e.peer = "ready" ELSE e.fill > 0 \/ e.closed \/ e.peer = "ready"
ClosedEmptyRecv(e) == IsRecv(e) /\ e.closed /\ e.fill = 0
NoLimit(e) == e.dl \in {"zero", "neg", "never"}
MustTrue(e) == ~ClosedEmptyRecv(e) /\
               \/ Immediate(e) /\ e.dl # "pre"
               \/ e.peer = "later" /\ (NoLimit(e) \/ e.dl = "long")
               \/ NoLimit(e)                                    \* the harness supplies a peer after 200ms, the call must still be there
MustFalse(e) == \/ ClosedEmptyRecv(e)
                \/ ~Immediate(e) /\ e.peer = "none" /\ ~NoLimit(e)
                \/ ~Immediate(e) /\ e.peer = "later" /\ e.dl \in {"short", "pre"}
C_Outcome(e) == (IsSend(e) \/ IsRecv(e)) => /\ (MustTrue(e) => e.ok) /\ (MustFalse(e) => ~e.ok) /\ ~e.blocked
\* "SendTimeout and SendContext return true exactly when the value was handed to the channel, and when they return false the value was not sent"
C_SendConserve(e) == IsSend(e) => LET where == e.rest \o e.peergot IN
                        /\ Count(where, 9) = (IF e.ok THEN 1 ELSE 0)
                        /\ \A u \in 1..e.fill : Count(where, u) = 1 /\ \A w \in Elems(where) : w = 9 \/ w \in 1..e.fill
\* "RecvTimeout and RecvContext return (v,true) exactly when they took v from the channel, and otherwise return the zero value
\*  and false having consumed nothing (a closed channel counts as false)"
C_RecvConserve(e) == IsRecv(e) =>
                        LET avail == Vals(1, e.fill) \o (IF e.peersent THEN <<8>> ELSE <<>>) IN
                        IF e.ok THEN /\ e.v \in Elems(avail) /\ e.rest = SelectSeq(avail, LAMBDA x : x # e.v)
                                     /\ (e.fill > 0 => e.v = 1)
                        ELSE e.v = 0 /\ e.rest = avail
\* "A non-positive timeout means wait without limit"
C_Unlimited(e) == e.early => Immediate(e)
\* several callers racing for the same values / slots: conservation must hold for the group, nobody may block past its timeout,
\* and nobody may report a value that was never sent ("a closed channel counts as false")
TrueIdx(e) == {i \in 1..Len(e.oks) : e.oks[i]}
C_RecvRace(e) == e.op = "RecvRace" =>
   /\ e.nblocked = 0
   /\ Cardinality(TrueIdx(e)) = Min(e.n, e.fill)
   /\ \A i \in 1..Len(e.oks) : IF e.oks[i] THEN e.vs[i] \in 1..e.fill ELSE e.vs[i] = 0
   /\ \A i, j \in TrueIdx(e) : i # j => e.vs[i] # e.vs[j]
   /\ {e.vs[i] : i \in TrueIdx(e)} \cup Elems(e.rest) = 1..e.fill /\ Len(e.rest) = e.fill - Cardinality(TrueIdx(e))
C_SendRace(e) == e.op = "SendRace" =>
   /\ e.nblocked = 0
   /\ Cardinality(TrueIdx(e)) = Min(e.n, e.cap - e.fill)
   /\ Len(e.rest) = e.fill + Cardinality(TrueIdx(e))
   /\ SubSeq(e.rest, 1, e.fill) = Vals(1, e.fill)
   /\ {e.rest[i] : i \in (e.fill + 1)..Len(e.rest)} = {e.vs[i] : i \in TrueIdx(e)}
\* the channel is closed right around the caller's deadline: "(a closed channel counts as false)" whichever comes first
C_CloseRace(e) == e.op = "RecvCloseRace" => ~e.blocked /\ ~e.ok /\ e.v = 0
C_NoPanic(e) == e.panic = ""
\* SendDeadlineRace (a batch of rounds, summarised): n rounds, pending = rounds in which SendTimeout's answer differed from what
\* the receiver saw ("return true exactly when the value was handed to the channel")
\* (fill = calls with a non-positive timeout, made right after such a round, that gave up although "a non-positive timeout means
\*  wait without limit")
C_SendDeadline(e) == e.op = "SendDeadlineRace" => e.pending = 0 /\ e.fill = 0
\* (stalled: the driver's heartbeat showed that the process did not run for a quarter of a second or more during every one of five
\*  attempts at this scenario - its timing margins mean nothing then, and nothing is concluded from it)
All(e) == e.stalled \/ (C_SendDeadline(e) /\ C_CloseRace(e) /\ C_RecvRace(e) /\ C_SendRace(e) /\ C_NoPanic(e) /\ C_NeverBlocks(e) /\ C_Queued(e) /\ C_QueuedPending(e) /\ C_Outcome(e) /\ C_SendConserve(e) /\ C_RecvConserve(e) /\ C_Unlimited(e))
TInit == l = 1
Step == l <= Len(Trace) /\ l' = l + 1 /\ (Gate => All(Ev))
TSpec == TInit /\ [][Step]_vars
Obs == Trace[l - 1]
Chk == ~Gate /\ l > 1 /\ ~Trace[l - 1].stalled
I_NoPanic == Chk => C_NoPanic(Obs)
I_NeverBlocks == Chk => C_NeverBlocks(Obs)
I_Queued == Chk => C_Queued(Obs)
I_QueuedPending == Chk => C_QueuedPending(Obs)
I_Outcome == Chk => C_Outcome(Obs)
I_SendConserve == Chk => C_SendConserve(Obs)
I_RecvConserve == Chk => C_RecvConserve(Obs)
I_Unlimited == Chk => C_Unlimited(Obs)
I_RecvRace == Chk => C_RecvRace(Obs)
I_CloseRace == Chk => C_CloseRace(Obs)
I_SendDeadline == Chk => C_SendDeadline(Obs)
I_SendRace == Chk => C_SendRace(Obs)
Track == TrackL(l)
Accepted == AcceptedP
====
