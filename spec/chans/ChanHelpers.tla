---- MODULE ChanHelpers ----
(* Design-level model of the channel helpers (C19).
   A Go channel is [buf, cap, closed]; rendezvous with a parked peer is the
   peer variable.  Part "queued": RecvQueued / RecvQueuedFull as the loop of
   non-blocking receives it is, which must stop at a closed and drained
   channel (intended algorithm).  Part "timed": SendTimeout / SendContext /
   RecvTimeout / RecvContext as a two-way select between the channel
   operation and a timer or context; all orders of {call starts, peer becomes
   ready, timer/context fires} are explored, and when both are ready either
   may win.  The invariant is conservation: true <=> the value moved exactly
   once; false => nothing moved; nothing is invented. *)
EXTENDS Integers, Sequences, FiniteSets, TLC, Json
CONSTANTS MaxCap, MaxLimit
VARIABLES mode, buf, cap, closed, limit, got, st,      \* queued part
          kind, hasDeadline, fired, peer, moved, res    \* timed part
vars == <<mode, buf, cap, closed, limit, got, st, kind, hasDeadline, fired, peer, moved, res>>
Vals(n) == [i \in 1..n |-> i]
InitQueued == /\ mode = "queued" /\ cap \in 0..MaxCap /\ \E f \in 0..cap : buf = Vals(f)
              /\ closed \in BOOLEAN /\ limit \in 0..MaxLimit /\ got = <<>> /\ st = "loop"
              /\ kind = "" /\ hasDeadline = FALSE /\ fired = FALSE /\ peer = "none" /\ moved = 0 /\ res = "none"
\* one iteration: select { case v, ok := <-ch: ... default: return }
QStep == /\ mode = "queued" /\ st = "loop"
         /\ IF Len(got) >= limit THEN st' = "done" /\ UNCHANGED <<buf, got>>
            ELSE IF buf # <<>> THEN got' = Append(got, Head(buf)) /\ buf' = Tail(buf) /\ UNCHANGED st
            ELSE st' = "done" /\ UNCHANGED <<buf, got>>          \* empty: default branch; closed and drained: stop, do not pad
         /\ UNCHANGED <<mode, cap, closed, limit, kind, hasDeadline, fired, peer, moved, res>>
\* ---- timed part: one call of kind Send* / Recv* on a channel with `buf` queued values ----
InitTimed == /\ mode = "timed" /\ kind \in {"send", "recv"} /\ cap \in 0..1 /\ \E f \in 0..cap : buf = Vals(f)
             /\ closed \in BOOLEAN /\ (kind = "send" => ~closed)       \* sending on a closed channel panics: outside the property
             /\ hasDeadline \in BOOLEAN /\ fired \in BOOLEAN /\ (fired => hasDeadline)
             /\ peer \in {"none", "later", "ready"} /\ moved = 0 /\ res = "none" /\ st = "idle"
             /\ limit = 0 /\ got = <<>>
\* can the channel operation complete right now?
CanOp == IF kind = "send" THEN Len(buf) < cap \/ peer = "ready"
         ELSE buf # <<>> \/ closed \/ peer = "ready"
DoOp == /\ moved' = (IF kind = "recv" /\ buf = <<>> /\ closed /\ peer # "ready" THEN 0 ELSE 1)
        /\ res' = (IF moved' = 1 THEN "true" ELSE "false")                 \* receive on closed and drained: (zero,false), nothing consumed
        /\ buf' = (IF kind = "send" THEN (IF Len(buf) < cap THEN Append(buf, 9) ELSE buf)
                   ELSE (IF buf # <<>> THEN Tail(buf) ELSE buf))
        /\ st' = "done"
CallRuns == /\ mode = "timed" /\ st \in {"idle", "parked"}
            /\ \/ CanOp /\ DoOp                                             \* the channel case is chosen
               \/ hasDeadline /\ fired /\ res' = "false" /\ st' = "done" /\ UNCHANGED <<buf, moved>>   \* the timer / context case is chosen
               \/ ~CanOp /\ ~(hasDeadline /\ fired) /\ st = "idle" /\ st' = "parked" /\ UNCHANGED <<buf, moved, res>>
            /\ UNCHANGED <<mode, cap, closed, limit, got, kind, hasDeadline, fired, peer>>
PeerArrives == /\ mode = "timed" /\ peer = "later" /\ st # "done" /\ peer' = "ready"
               /\ UNCHANGED <<mode, buf, cap, closed, limit, got, st, kind, hasDeadline, fired, moved, res>>
Fires == /\ mode = "timed" /\ hasDeadline /\ ~fired /\ st # "done" /\ fired' = TRUE
         /\ UNCHANGED <<mode, buf, cap, closed, limit, got, st, kind, hasDeadline, peer, moved, res>>
Init == InitQueued \/ InitTimed
Next == QStep \/ CallRuns \/ PeerArrives \/ Fires
Spec == Init /\ [][Next]_vars
\* ---- properties ----
\* queued receivers: FIFO prefix up to the limit, the rest stays, nothing invented (no zero padding after close)
QueuedOK == (mode = "queued" /\ st = "done") =>
              LET n == Len(got) IN /\ got \o buf = Vals(n + Len(buf))
                                   /\ (n < limit => buf = <<>>)
QueuedNeverBlocks == (mode = "queued" /\ st = "loop") => ENABLED QStep
\* timed helpers: true <=> moved exactly once; false => nothing moved
Conservation == (mode = "timed" /\ st = "done") => ((res = "true") <=> (moved = 1))
\* without a deadline (timeout <= 0, background context) the call never gives up
NoDeadlineNeverFalse == (mode = "timed" /\ st = "done" /\ ~hasDeadline /\ res = "false") => (kind = "recv" /\ closed)
\* a call that can neither proceed nor time out stays parked (it does not return spuriously)
View == vars
LogEdge == TRUE
====
