---- MODULE Sorted ----
(* Implementation-level model of slices.Sorted (C07).  The backing slice is a
   sequence; search is Go's sort.Search loop transcribed; Insert/Remove are
   the splice results of slices.Insert / slices.Remove (their append/copy
   mechanics over a heap are modelled in Splice.tla, C12).  Remove is the
   intended algorithm (absent value => -1, nothing changes).
   Mode: "asc" a<b, "desc" a>b, "key" (a \div 10) < (b \div 10) -- a weak order
   in which == is finer than the order. *)
EXTENDS Integers, Sequences, FiniteSets, TLC, Json
CONSTANTS Vals, MaxLen, Mode, MaxInit
VARIABLES s, started, last
vars == <<s, started, last>>
Less(a, b) == CASE Mode = "asc" -> a < b [] Mode = "desc" -> a > b [] OTHER -> (a \div 10) < (b \div 10)
\* sort.Search(n, f): smallest i in [0,n] with f(i), by bisection; f is over 0-based indices
\* (f is the predicate tabulated as a boolean sequence, f[h+1] = F(h))
RECURSIVE Bisect(_, _, _)
Bisect(i, j, f) == IF i < j THEN LET h == (i + j) \div 2 IN IF ~f[h + 1] THEN Bisect(h + 1, j, f) ELSE Bisect(i, h, f) ELSE i
Search(q, v) == Bisect(0, Len(q), [i \in 1..Len(q) |-> ~Less(q[i], v)])
IndexOf(q, v) == LET i == Search(q, v) IN IF i >= Len(q) \/ q[i + 1] # v THEN -1 ELSE i
InsertAt(q, i, v) == SubSeq(q, 1, i) \o <<v>> \o SubSeq(q, i + 1, Len(q))
DeleteAt(q, i) == SubSeq(q, 1, i) \o SubSeq(q, i + 2, Len(q))
\* stable insertion sort = what sort.SliceStable yields
RECURSIVE StableSort(_)
StableSort(q) == IF q = <<>> THEN <<>> ELSE
   LET r == StableSort(SubSeq(q, 1, Len(q) - 1))
       v == q[Len(q)]
       pos == Bisect(0, Len(r), [i \in 1..Len(r) |-> Less(v, r[i])])   \* first element greater than v: v goes after all its equals
   IN InsertAt(r, pos, v)
Op(o, a, r) == [op |-> o, arg |-> a, ret |-> r, vals |-> <<>>]
Init == s = <<>> /\ started = FALSE /\ last = Op("Reset", 0, 0)
Inputs == UNION {[1..n -> Vals] : n \in 0..MaxInit}
New(vs) == /\ ~started /\ started' = TRUE /\ s' = StableSort(vs)
           /\ last' = [op |-> "New", arg |-> 0, ret |-> 0, vals |-> vs]
Add(v) == /\ started /\ Len(s) < MaxLen /\ UNCHANGED started
          /\ LET i == Search(s, v) IN s' = InsertAt(s, i, v) /\ last' = Op("Add", v, i)
Remove(v) == /\ started /\ UNCHANGED started
             /\ LET i == IndexOf(s, v) IN
                /\ s' = IF i = -1 THEN s ELSE DeleteAt(s, i)
                /\ last' = Op("Remove", v, i)
RemoveAt(i) == /\ started /\ UNCHANGED started
               /\ s' = IF i < 0 \/ i >= Len(s) THEN s ELSE DeleteAt(s, i)
               /\ last' = Op("RemoveAt", i, 0)
Get(i) == /\ started /\ UNCHANGED <<s, started>>
          /\ last' = Op("Get", i, IF i < 0 \/ i >= Len(s) THEN 0 ELSE s[i + 1])
Index(v) == started /\ UNCHANGED <<s, started>> /\ last' = Op("Index", v, IndexOf(s, v))
Contains(v) == started /\ UNCHANGED <<s, started>> /\ last' = Op("Contains", v, IF IndexOf(s, v) # -1 THEN 1 ELSE 0)
Next == \/ \E vs \in Inputs : New(vs)
        \/ \E v \in Vals : Add(v) \/ Remove(v) \/ Index(v) \/ Contains(v)
        \/ \E i \in -1..MaxLen : (i <= Len(s)) /\ (RemoveAt(i) \/ Get(i))
Spec == Init /\ [][Next]_vars
\* ---- the property on the model ----
IsSorted == \A i \in 1..Len(s) - 1 : ~Less(s[i + 1], s[i])
Count(q, v) == Cardinality({i \in 1..Len(q) : q[i] = v})
Total == Mode \in {"asc", "desc"}
BagStep == [][
  /\ (last'.op = "New" => \A v \in Vals : Count(s', v) = Count(last'.vals, v))
  /\ (last'.op = "Add" => \A v \in Vals : Count(s', v) = Count(s, v) + (IF v = last'.arg THEN 1 ELSE 0))
  /\ (last'.op = "Add" /\ Total => s'[last'.ret + 1] = last'.arg)
  /\ (last'.op = "Remove" => IF last'.ret = -1 THEN s' = s
                              ELSE s[last'.ret + 1] = last'.arg /\ s' = DeleteAt(s, last'.ret))
  /\ (last'.op = "Remove" /\ Total => (last'.ret = -1) = (Count(s, last'.arg) = 0))
  /\ (last'.op = "Index" /\ Total => IF Count(s, last'.arg) = 0 THEN last'.ret = -1
                                     ELSE /\ s[last'.ret + 1] = last'.arg
                                          /\ \A j \in 1..last'.ret : s[j] # last'.arg)
  ]_vars
View == <<s, started>>
LogEdge == PrintT(<<"E", ToJson([f |-> <<s, started>>, t |-> <<s', started'>>, op |-> last'])>>)
====
