---- MODULE SortedAbsTrace ----
(* Abstract trace validator for C07.  Abstract state: the contents as a
   sequence (bound to the logged contents after each call, because for a weak
   order the position among equivalent elements is the implementation's
   choice) and the caller's input slice.  Clauses quote the property. *)
EXTENDS TraceLib, FiniteSets
CONSTANT Gate
VARIABLES s, prev, inp, mode, l
vars == <<s, prev, inp, mode, l>>
Ev == Trace[l]
Less(m, a, b) == CASE m = "asc" -> a < b [] m = "desc" -> a > b [] OTHER -> (a \div 10) < (b \div 10)
Total(m) == m \in {"asc", "desc"}
Count(q, v) == Cardinality({i \in 1..Len(q) : q[i] = v})
Elems(q) == {q[i] : i \in 1..Len(q)}
SameBagPlus(q2, q1, add, del) ==   \* bag(q2) = bag(q1) + add - del   (add, del sequences)
  \A v \in Elems(q1) \cup Elems(q2) \cup Elems(add) \cup Elems(del) :
     Count(q2, v) = Count(q1, v) + Count(add, v) - Count(del, v)
DeleteAt(q, i) == SubSeq(q, 1, i) \o SubSeq(q, i + 2, Len(q))
InRange(q, i) == i >= 0 /\ i < Len(q)
RECURSIVE Join(_)
Join(q) == IF q = <<>> THEN "" ELSE IF Len(q) = 1 THEN ToString(q[1]) ELSE ToString(q[1]) \o " " \o Join(Tail(q))
\* "the contents are in non-decreasing order under the less function"
C_Sorted(m, n) == \A i \in 1..Len(n) - 1 : ~Less(m, n[i + 1], n[i])
\* "are exactly the multiset of values put in and not taken out"; Get/RemoveAt "act on exactly the given position";
\* Remove "deletes one occurrence and returns its former position - or returns -1 and changes nothing"
C_Bag(p, n, e) ==
  CASE e.op = "New" -> SameBagPlus(n, <<>>, e.vals, <<>>)
    [] e.op = "Add" -> SameBagPlus(n, p, <<e.arg>>, <<>>)
    [] e.op = "Remove" -> IF e.ret = -1 THEN n = p
                          ELSE InRange(p, e.ret) /\ p[e.ret + 1] = e.arg /\ n = DeleteAt(p, e.ret)
    [] e.op = "RemoveAt" -> IF InRange(p, e.arg) THEN n = DeleteAt(p, e.arg) ELSE n = p
    [] OTHER -> n = p
\* strict total order consistent with ==
C_Total(m, p, n, e) == Total(m) =>
  CASE e.op = "Add" -> InRange(n, e.ret) /\ n[e.ret + 1] = e.arg
    [] e.op = "Index" -> IF Count(p, e.arg) = 0 THEN e.ret = -1
                         ELSE InRange(p, e.ret) /\ p[e.ret + 1] = e.arg /\ \A j \in 1..e.ret : p[j] # e.arg
    [] e.op = "Contains" -> e.ret = (IF Count(p, e.arg) > 0 THEN 1 ELSE 0)
    [] e.op = "Remove" -> (e.ret = -1) = (Count(p, e.arg) = 0)
    [] OTHER -> TRUE
\* for any order: Contains agrees with Index (both logged for the argument after every call)
C_ContainsIndex(e) == e.op \in {"Index", "Contains"} => (e.idx # -1) = e.has
\* "Get and RemoveAt ... panic for positions outside [0,Len)"; nothing else panics
C_Panic(p, e) == IF e.op \in {"Get", "RemoveAt"} /\ ~InRange(p, e.arg) THEN e.panic # "" ELSE e.panic = ""
C_Get(p, e) == (e.op = "Get" /\ InRange(p, e.arg)) => e.ret = p[e.arg + 1]
\* "NewSorted ... over any input (which is copied, never aliased or reordered)"
C_Input(i, e) == e.input = i
C_Len(n, e) == e.len = Len(n)
C_String(n, e) == e.str = "[" \o Join(n) \o "]"
All(m, p, n, i, e) == /\ C_Sorted(m, n) /\ C_Bag(p, n, e) /\ C_Total(m, p, n, e) /\ C_ContainsIndex(e) /\ C_Panic(p, e)
                      /\ C_Get(p, e) /\ C_Input(i, e) /\ C_Len(n, e) /\ C_String(n, e)
TInit == s = <<>> /\ prev = <<>> /\ inp = <<>> /\ mode = "asc" /\ l = 1
Reset == /\ l <= Len(Trace) /\ Ev.op = "Reset" /\ l' = l + 1
         /\ s' = <<>> /\ prev' = <<>> /\ inp' = <<>> /\ mode' = Ev.mode
Step == /\ l <= Len(Trace) /\ Ev.op # "Reset" /\ l' = l + 1
        /\ s' = Ev.items /\ prev' = s /\ mode' = mode
        /\ inp' = CASE Ev.op = "New" -> Ev.vals
                    [] Ev.op = "Poke" -> [i \in 1..Len(inp) |-> 77]
                    [] OTHER -> inp
        /\ (Gate => All(mode, s, s', inp', Ev))
TSpec == TInit /\ [][Reset \/ Step]_vars
Obs == Trace[l - 1]
Chk == ~Gate /\ l > 1 /\ Obs.op # "Reset"
I_Sorted == Chk => C_Sorted(mode, s)
I_Bag == Chk => C_Bag(prev, s, Obs)
I_Total == Chk => C_Total(mode, prev, s, Obs)
I_ContainsIndex == Chk => C_ContainsIndex(Obs)
I_Panic == Chk => C_Panic(prev, Obs)
I_Get == Chk => C_Get(prev, Obs)
I_Input == Chk => C_Input(inp, Obs)
I_Len == Chk => C_Len(s, Obs)
I_String == Chk => C_String(s, Obs)
Track == TrackL(l)
Accepted == AcceptedP
====
