---- MODULE OnceInd ----
(* Unbounded safety of Once.tla's design (EarlyRead = FALSE) by an inductive invariant, discharged with Apalache:
   Init => IndInv (length 0) and IndInv /\ Next => IndInv' (length 1), for any number of callers up to the constant's size. *)
EXTENDS Integers, FiniteSets
CONSTANTS
  \* @type: Set(Int);
  Callers
VARIABLES
  \* @type: Str;
  state,
  \* @type: Int;
  runner,
  \* @type: Int;
  field,
  \* @type: Int -> Str;
  pc,
  \* @type: Int -> Int;
  tmp,
  \* @type: Int -> Int;
  ret,
  \* @type: Int;
  starts
vars == <<state, runner, field, pc, tmp, ret, starts>>
CInit == Callers = {1, 2, 3, 4, 5}
Init == /\ state = "fresh" /\ runner = 0 /\ field = 0 /\ pc = [c \in Callers |-> "idle"] /\ tmp = [c \in Callers |-> -1]
        /\ ret = [c \in Callers |-> -1] /\ starts = 0
Invoke(c) == /\ pc[c] = "idle" /\ pc' = [pc EXCEPT ![c] = "do"] /\ UNCHANGED <<state, runner, field, tmp, ret, starts>>
Claim(c) == /\ pc[c] = "do" /\ state = "fresh" /\ state' = "running" /\ runner' = c /\ starts' = starts + 1
            /\ pc' = [pc EXCEPT ![c] = "inF"] /\ UNCHANGED <<field, tmp, ret>>
FEnd(c) == /\ pc[c] = "inF" /\ field' = c /\ state' = "done" /\ pc' = [pc EXCEPT ![c] = "read"]
           /\ UNCHANGED <<runner, tmp, ret, starts>>
Pass(c) == /\ pc[c] = "do" /\ state = "done" /\ pc' = [pc EXCEPT ![c] = "read"]
           /\ UNCHANGED <<state, runner, field, tmp, ret, starts>>
Read(c) == /\ pc[c] = "read" /\ tmp' = [tmp EXCEPT ![c] = field] /\ pc' = [pc EXCEPT ![c] = "out"]
           /\ UNCHANGED <<state, runner, field, ret, starts>>
Return(c) == /\ pc[c] = "out" /\ ret' = [ret EXCEPT ![c] = tmp[c]] /\ pc' = [pc EXCEPT ![c] = "returned"]
             /\ UNCHANGED <<state, runner, field, tmp, starts>>
Next == \E c \in Callers : Invoke(c) \/ Claim(c) \/ FEnd(c) \/ Pass(c) \/ Read(c) \/ Return(c)
PCs == {"idle", "do", "inF", "read", "out", "returned"}
TypeOK == /\ state \in {"fresh", "running", "done"} /\ runner \in Callers \cup {0} /\ field \in Callers \cup {0}
          /\ pc \in [Callers -> PCs] /\ tmp \in [Callers -> Callers \cup {0, -1}] /\ ret \in [Callers -> Callers \cup {0, -1}]
          /\ starts \in 0..1
IndInv == /\ TypeOK
          /\ (state = "fresh" => starts = 0 /\ runner = 0 /\ field = 0 /\ \A c \in Callers : pc[c] \in {"idle", "do"})
          /\ (state = "running" => starts = 1 /\ runner \in Callers /\ pc[runner] = "inF" /\ field = 0
                                   /\ \A c \in Callers : c # runner => pc[c] \in {"idle", "do"})
          /\ (state = "done" => starts = 1 /\ runner \in Callers /\ field = runner /\ \A c \in Callers : pc[c] # "inF")
          /\ \A c \in Callers : /\ (pc[c] = "read" => state = "done")
                                /\ (pc[c] = "out" => state = "done" /\ tmp[c] = runner)
                                /\ (pc[c] = "returned" => state = "done" /\ ret[c] = runner)
\* the properties of Once.tla follow from IndInv
AtMostOneRun == starts <= 1
ReturnsShared == \A c \in Callers : pc[c] = "returned" => (state = "done" /\ ret[c] = runner /\ ret[c] # 0)
FieldDiscipline == \A c \in Callers : pc[c] = "read" => state = "done"
Props == AtMostOneRun /\ ReturnsShared /\ FieldDiscipline
IndInit == IndInv
\* negative control: without the clause about "out" the invariant is not inductive (Return breaks "returned => ret = runner")
WeakInv == /\ TypeOK
           /\ (state = "fresh" => starts = 0 /\ runner = 0 /\ field = 0 /\ \A c \in Callers : pc[c] \in {"idle", "do"})
           /\ (state = "running" => starts = 1 /\ runner \in Callers /\ pc[runner] = "inF" /\ field = 0
                                    /\ \A c \in Callers : c # runner => pc[c] \in {"idle", "do"})
           /\ (state = "done" => starts = 1 /\ runner \in Callers /\ field = runner /\ \A c \in Callers : pc[c] # "inF")
           /\ \A c \in Callers : /\ (pc[c] = "read" => state = "done")
                                 /\ (pc[c] = "returned" => state = "done" /\ ret[c] = runner)
WeakInit == WeakInv
====
