---- MODULE OnceAbsTrace ----
(* Abstract trace validator for C17.  Caller number t passes its own function
   (also numbered t), which returns the values t*10+1 .. t*10+arity and, as its
   last statement, writes t to a plain variable (the "effect").  Lines:
   invoke(t) before the caller calls Do, fstart(f)/fend(f) from inside the
   function, ret(t, vals, effect) after Do returned (effect = what the caller
   then read from the plain variable), end. *)
EXTENDS TraceLib, FiniteSets
CONSTANT Gate
VARIABLES invoked, started, ended, arity, l
vars == <<invoked, started, ended, arity, l>>
Ev == Trace[l]
IsEv(e) == l <= Len(Trace) /\ Trace[l].ev = e /\ l' = l + 1
TInit == invoked = {} /\ started = 0 /\ ended = FALSE /\ arity = 1 /\ l = 1
TReset == IsEv("reset") /\ invoked' = {} /\ started' = 0 /\ ended' = FALSE /\ arity' = Ev.arity
TInvoke == IsEv("invoke") /\ invoked' = invoked \cup {Ev.t} /\ UNCHANGED <<started, ended, arity>>
\* "exactly one of those functions is invoked, exactly once" -- and it is a function some caller actually passed
TFStart == IsEv("fstart") /\ started = 0 /\ Ev.f \in invoked /\ started' = Ev.f /\ UNCHANGED <<invoked, ended, arity>>
TFEnd == IsEv("fend") /\ Ev.f = started /\ ~ended /\ ended' = TRUE /\ UNCHANGED <<invoked, started, arity>>
\* "Every Do call returns the values that invocation returned, and returns only after that invocation has completed
\*  (so its effects are visible to the caller)"
TRet == /\ IsEv("ret") /\ Ev.t \in invoked
        /\ ended
        /\ Ev.vals = [i \in 1..arity |-> IF Ev.zero THEN 0 ELSE started * 10 + i]   \* (zero: the functions return zero values / nil interfaces)
        /\ Ev.effect = started
        /\ UNCHANGED <<invoked, started, ended, arity>>
TInfo == IsEv("info") /\ UNCHANGED <<invoked, started, ended, arity>>
TEnd == IsEv("end") /\ (invoked # {} => started # 0 /\ ended) /\ UNCHANGED <<invoked, started, ended, arity>>
\* a whole unsynchronised round of n simultaneous first callers, summarised: exactly one function started, and every caller
\* returned that function's values
TBurst == IsEv("burst") /\ Ev.starts = 1 /\ Ev.agree = Ev.n /\ UNCHANGED <<invoked, started, ended, arity>>
\* (a "stall" line - callers that did not come back from Do although the action had been released - and a "crash" line have no
\*  action: every Do returns, so such a line is never explained)
TNext == TBurst \/ TReset \/ TInvoke \/ TFStart \/ TFEnd \/ TRet \/ TInfo \/ TEnd
TSpec == TInit /\ [][TNext]_vars
Track == TrackL(l)
Accepted == AcceptedP
====
