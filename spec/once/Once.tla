---- MODULE Once ----
(* Design-level model of sync2.Once1/2/3 (C17).  sync.Once is taken by its
   documented contract: the first caller claims and runs the function, every
   other caller waits until that run has finished.  The wrapper adds two steps
   of its own: the claimed section stores the function's results in the
   struct's fields, and every caller, after once.Do returned, reads the fields
   and returns them.  EarlyRead = TRUE is a named deviation (the fields are read
   before once.Do): TLC shows a caller returning before the action completed. *)
EXTENDS Integers, FiniteSets, TLC
CONSTANTS Callers, EarlyRead
VARIABLES state,      \* "fresh" | "running" | "done"    (sync.Once)
          runner,     \* the caller whose function runs
          field,      \* the result field(s): 0 = zero value, else the id of the function that produced them
          pc, tmp, ret, starts
vars == <<state, runner, field, pc, tmp, ret, starts>>
Init == /\ state = "fresh" /\ runner = 0 /\ field = 0 /\ pc = [c \in Callers |-> "idle"] /\ tmp = [c \in Callers |-> -1]
        /\ ret = [c \in Callers |-> -1] /\ starts = 0
Invoke(c) == /\ pc[c] = "idle" /\ pc' = [pc EXCEPT ![c] = IF EarlyRead THEN "read" ELSE "do"] /\ UNCHANGED <<state, runner, field, tmp, ret, starts>>
\* once.Do: claim and start running f ...
Claim(c) == /\ pc[c] = "do" /\ state = "fresh" /\ state' = "running" /\ runner' = c /\ starts' = starts + 1
            /\ pc' = [pc EXCEPT ![c] = "inF"] /\ UNCHANGED <<field, tmp, ret>>
\* ... f returns, the results are stored, the Once is marked done
FEnd(c) == /\ pc[c] = "inF" /\ field' = c /\ state' = "done" /\ pc' = [pc EXCEPT ![c] = IF EarlyRead THEN "out" ELSE "read"]
           /\ UNCHANGED <<runner, tmp, ret, starts>>
\* ... or wait for the run to finish (blocked while state = "running")
Pass(c) == /\ pc[c] = "do" /\ state = "done" /\ pc' = [pc EXCEPT ![c] = IF EarlyRead THEN "out" ELSE "read"]
           /\ UNCHANGED <<state, runner, field, tmp, ret, starts>>
Read(c) == /\ pc[c] = "read" /\ tmp' = [tmp EXCEPT ![c] = field] /\ pc' = [pc EXCEPT ![c] = IF EarlyRead THEN "do" ELSE "out"]
           /\ UNCHANGED <<state, runner, field, ret, starts>>
Return(c) == /\ pc[c] = "out" /\ ret' = [ret EXCEPT ![c] = tmp[c]] /\ pc' = [pc EXCEPT ![c] = "returned"]
             /\ UNCHANGED <<state, runner, field, tmp, starts>>
Next == \E c \in Callers : Invoke(c) \/ Claim(c) \/ FEnd(c) \/ Pass(c) \/ Read(c) \/ Return(c)
Spec == Init /\ [][Next]_vars
\* Liveness: if the function that runs terminates, every Do call returns (nobody stays parked inside sync.Once)
Fair == \A c \in Callers : WF_vars(Claim(c)) /\ WF_vars(FEnd(c)) /\ WF_vars(Pass(c)) /\ WF_vars(Read(c)) /\ WF_vars(Return(c))
LiveSpec == Spec /\ Fair
EveryDoReturns == \A c \in Callers : (pc[c] # "idle") ~> (pc[c] = "returned")
\* "exactly one of those functions is invoked, exactly once"
AtMostOneRun == starts <= 1
\* "Every Do call returns the values that invocation returned, and returns only after that invocation has completed"
ReturnsShared == \A c \in Callers : pc[c] = "returned" => (state = "done" /\ ret[c] = runner /\ ret[c] # 0)
\* the fields are written only inside the claimed section and read only after completion
FieldDiscipline == \A c \in Callers : (pc[c] = "read" /\ ~EarlyRead) => state = "done"
====
