---- MODULE Once_TTrace_1790884180 ----
EXTENDS Sequences, TLCExt, Once, Toolbox, Naturals, TLC

_expression ==
    LET Once_TEExpression == INSTANCE Once_TEExpression
    IN Once_TEExpression!expression
----

_trace ==
    LET Once_TETrace == INSTANCE Once_TETrace
    IN Once_TETrace!trace
----

_inv ==
    ~(
        TLCGet("level") = Len(_TETrace)
        /\
        ret = (<<0, -1, -1>>)
        /\
        pc = (<<"returned", "idle", "idle">>)
        /\
        field = (1)
        /\
        tmp = (<<0, -1, -1>>)
        /\
        state = ("done")
        /\
        starts = (1)
        /\
        runner = (1)
    )
----

_init ==
    /\ state = _TETrace[1].state
    /\ starts = _TETrace[1].starts
    /\ ret = _TETrace[1].ret
    /\ pc = _TETrace[1].pc
    /\ field = _TETrace[1].field
    /\ runner = _TETrace[1].runner
    /\ tmp = _TETrace[1].tmp
----

_next ==
    /\ \E i,j \in DOMAIN _TETrace:
        /\ \/ /\ j = i + 1
              /\ i = TLCGet("level")
        /\ state  = _TETrace[i].state
        /\ state' = _TETrace[j].state
        /\ starts  = _TETrace[i].starts
        /\ starts' = _TETrace[j].starts
        /\ ret  = _TETrace[i].ret
        /\ ret' = _TETrace[j].ret
        /\ pc  = _TETrace[i].pc
        /\ pc' = _TETrace[j].pc
        /\ field  = _TETrace[i].field
        /\ field' = _TETrace[j].field
        /\ runner  = _TETrace[i].runner
        /\ runner' = _TETrace[j].runner
        /\ tmp  = _TETrace[i].tmp
        /\ tmp' = _TETrace[j].tmp

\* Uncomment the ASSUME below to write the states of the error trace
\* to the given file in Json format. Note that you can pass any tuple
\* to `JsonSerialize`. For example, a sub-sequence of _TETrace.
    \* ASSUME
    \*     LET J == INSTANCE Json
    \*         IN J!JsonSerialize("Once_TTrace_1790884180.json", _TETrace)

=============================================================================

 Note that you can extract this module `Once_TEExpression`
  to a dedicated file to reuse `expression` (the module in the 
  dedicated `Once_TEExpression.tla` file takes precedence 
  over the module `Once_TEExpression` below).

---- MODULE Once_TEExpression ----
EXTENDS Sequences, TLCExt, Once, Toolbox, Naturals, TLC

expression == 
    [
        \* To hide variables of the `Once` spec from the error trace,
        \* remove the variables below.  The trace will be written in the order
        \* of the fields of this record.
        state |-> state
        ,starts |-> starts
        ,ret |-> ret
        ,pc |-> pc
        ,field |-> field
        ,runner |-> runner
        ,tmp |-> tmp
        
        \* Put additional constant-, state-, and action-level expressions here:
        \* ,_stateNumber |-> _TEPosition
        \* ,_stateUnchanged |-> state = state'
        
        \* Format the `state` variable as Json value.
        \* ,_stateJson |->
        \*     LET J == INSTANCE Json
        \*     IN J!ToJson(state)
        
        \* Lastly, you may build expressions over arbitrary sets of states by
        \* leveraging the _TETrace operator.  For example, this is how to
        \* count the number of times a spec variable changed up to the current
        \* state in the trace.
        \* ,_stateModCount |->
        \*     LET F[s \in DOMAIN _TETrace] ==
        \*         IF s = 1 THEN 0
        \*         ELSE IF _TETrace[s].state # _TETrace[s-1].state
        \*             THEN 1 + F[s-1] ELSE F[s-1]
        \*     IN F[_TEPosition - 1]
    ]

=============================================================================



Parsing and semantic processing can take forever if the trace below is long.
 In this case, it is advised to uncomment the module below to deserialize the
 trace from a generated binary file.

\*
\*---- MODULE Once_TETrace ----
\*EXTENDS IOUtils, Once, TLC
\*
\*trace == IODeserialize("Once_TTrace_1790884180.bin", TRUE)
\*
\*=============================================================================
\*

---- MODULE Once_TETrace ----
EXTENDS Once, TLC

trace == 
    <<
    ([ret |-> <<-1, -1, -1>>,pc |-> <<"idle", "idle", "idle">>,field |-> 0,tmp |-> <<-1, -1, -1>>,state |-> "fresh",starts |-> 0,runner |-> 0]),
    ([ret |-> <<-1, -1, -1>>,pc |-> <<"read", "idle", "idle">>,field |-> 0,tmp |-> <<-1, -1, -1>>,state |-> "fresh",starts |-> 0,runner |-> 0]),
    ([ret |-> <<-1, -1, -1>>,pc |-> <<"do", "idle", "idle">>,field |-> 0,tmp |-> <<0, -1, -1>>,state |-> "fresh",starts |-> 0,runner |-> 0]),
    ([ret |-> <<-1, -1, -1>>,pc |-> <<"inF", "idle", "idle">>,field |-> 0,tmp |-> <<0, -1, -1>>,state |-> "running",starts |-> 1,runner |-> 1]),
    ([ret |-> <<-1, -1, -1>>,pc |-> <<"out", "idle", "idle">>,field |-> 1,tmp |-> <<0, -1, -1>>,state |-> "done",starts |-> 1,runner |-> 1]),
    ([ret |-> <<0, -1, -1>>,pc |-> <<"returned", "idle", "idle">>,field |-> 1,tmp |-> <<0, -1, -1>>,state |-> "done",starts |-> 1,runner |-> 1])
    >>
----


=============================================================================

---- CONFIG Once_TTrace_1790884180 ----
CONSTANTS
    Callers = { 1 , 2 , 3 }
    EarlyRead = TRUE

INVARIANT
    _inv

CHECK_DEADLOCK
    \* CHECK_DEADLOCK off because of PROPERTY or INVARIANT above.
    FALSE

INIT
    _init

NEXT
    _next

CONSTANT
    _TETrace <- _trace

ALIAS
    _expression
=============================================================================
\* Generated on Thu Oct 01 19:49:41 UTC 2026