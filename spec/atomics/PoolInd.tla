---- MODULE PoolInd ----
(* Unbounded safety of Pool.tla's design (WritesNew = FALSE, the repaired Get) by an inductive invariant, discharged with
   Apalache: Init => IndInv (length 0), IndInv /\ Next => IndInv' (length 1), IndInv => Props (length 0).  The invariant says
   what the hand-out discipline rests on: `out` is exactly the set of items held, no item is held twice, nothing that is out
   is also available, and every item that exists was produced by New (1..fresh). *)
EXTENDS Integers, FiniteSets
CONSTANTS
  \* @type: Set(Int);
  Threads,
  \* @type: Int;
  MaxFresh
VARIABLES
  \* @type: Set(Int);
  avail,
  \* @type: Set(Int);
  out,
  \* @type: Int;
  fresh,
  \* @type: Int -> Str;
  pc,
  \* @type: Int -> Int;
  hold
vars == <<avail, out, fresh, pc, hold>>
CInit == Threads = {1, 2, 3, 4} /\ MaxFresh = 6
Init == avail = {} /\ out = {} /\ fresh = 0 /\ pc = [t \in Threads |-> "idle"] /\ hold = [t \in Threads |-> 0]
GetStart(t) == /\ pc[t] = "idle" /\ hold[t] = 0 /\ pc' = [pc EXCEPT ![t] = "get"] /\ UNCHANGED <<avail, out, fresh, hold>>
GetItem(t) == /\ pc[t] = "get"
              /\ \/ \E x \in avail : avail' = avail \ {x} /\ out' = out \cup {x} /\ hold' = [hold EXCEPT ![t] = x] /\ UNCHANGED fresh
                 \/ fresh < MaxFresh /\ fresh' = fresh + 1 /\ out' = out \cup {fresh + 1} /\ hold' = [hold EXCEPT ![t] = fresh + 1] /\ UNCHANGED avail
              /\ pc' = [pc EXCEPT ![t] = "idle"]
Put(t) == /\ pc[t] = "idle" /\ hold[t] # 0 /\ avail' = avail \cup {hold[t]} /\ out' = out \ {hold[t]} /\ hold' = [hold EXCEPT ![t] = 0]
          /\ UNCHANGED <<fresh, pc>>
Drop == \E x \in avail : avail' = avail \ {x} /\ UNCHANGED <<out, fresh, pc, hold>>
Next == Drop \/ \E t \in Threads : GetStart(t) \/ GetItem(t) \/ Put(t)
Items == 1..MaxFresh
TypeOK == /\ avail \in SUBSET Items /\ out \in SUBSET Items /\ fresh \in 0..MaxFresh
          /\ pc \in [Threads -> {"idle", "get"}] /\ hold \in [Threads -> Items \cup {0}]
IndInv == /\ TypeOK
          /\ out = {hold[t] : t \in {u \in Threads : hold[u] # 0}}
          /\ \A t, u \in Threads : (t # u /\ hold[t] # 0) => hold[t] # hold[u]
          /\ avail \cap out = {}
          /\ \A x \in avail \cup out : x <= fresh
          /\ \A t \in Threads : pc[t] = "get" => hold[t] = 0
NoDoubleHandOut == \A t, u \in Threads : (t # u /\ hold[t] # 0) => hold[t] # hold[u]
Disjoint == avail \cap out = {}
Props == NoDoubleHandOut /\ Disjoint
IndInit == IndInv
\* negative control: without "everything that exists is <= fresh" a fresh item may collide with one that is already out
WeakInv == /\ TypeOK
           /\ out = {hold[t] : t \in {u \in Threads : hold[u] # 0}}
           /\ \A t, u \in Threads : (t # u /\ hold[t] # 0) => hold[t] # hold[u]
           /\ avail \cap out = {}
           /\ \A t \in Threads : pc[t] = "get" => hold[t] = 0
WeakInit == WeakInv
====
