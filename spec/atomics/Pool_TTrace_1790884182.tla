---- MODULE Pool_TTrace_1790884182 ----
EXTENDS Sequences, TLCExt, Toolbox, Naturals, TLC, Pool

_expression ==
    LET Pool_TEExpression == INSTANCE Pool_TEExpression
    IN Pool_TEExpression!expression
----

_trace ==
    LET Pool_TETrace == INSTANCE Pool_TETrace
    IN Pool_TETrace!trace
----

_inv ==
    ~(
        TLCGet("level") = Len(_TETrace)
        /\
        avail = ({})
        /\
        pc = (<<"wnew", "wnew", "idle">>)
        /\
        fresh = (0)
        /\
        out = ({})
        /\
        hold = (<<0, 0, 0>>)
    )
----

_init ==
    /\ out = _TETrace[1].out
    /\ fresh = _TETrace[1].fresh
    /\ pc = _TETrace[1].pc
    /\ hold = _TETrace[1].hold
    /\ avail = _TETrace[1].avail
----

_next ==
    /\ \E i,j \in DOMAIN _TETrace:
        /\ \/ /\ j = i + 1
              /\ i = TLCGet("level")
        /\ out  = _TETrace[i].out
        /\ out' = _TETrace[j].out
        /\ fresh  = _TETrace[i].fresh
        /\ fresh' = _TETrace[j].fresh
        /\ pc  = _TETrace[i].pc
        /\ pc' = _TETrace[j].pc
        /\ hold  = _TETrace[i].hold
        /\ hold' = _TETrace[j].hold
        /\ avail  = _TETrace[i].avail
        /\ avail' = _TETrace[j].avail

\* Uncomment the ASSUME below to write the states of the error trace
\* to the given file in Json format. Note that you can pass any tuple
\* to `JsonSerialize`. For example, a sub-sequence of _TETrace.
    \* ASSUME
    \*     LET J == INSTANCE Json
    \*         IN J!JsonSerialize("Pool_TTrace_1790884182.json", _TETrace)

=============================================================================

 Note that you can extract this module `Pool_TEExpression`
  to a dedicated file to reuse `expression` (the module in the 
  dedicated `Pool_TEExpression.tla` file takes precedence 
  over the module `Pool_TEExpression` below).

---- MODULE Pool_TEExpression ----
EXTENDS Sequences, TLCExt, Toolbox, Naturals, TLC, Pool

expression == 
    [
        \* To hide variables of the `Pool` spec from the error trace,
        \* remove the variables below.  The trace will be written in the order
        \* of the fields of this record.
        out |-> out
        ,fresh |-> fresh
        ,pc |-> pc
        ,hold |-> hold
        ,avail |-> avail
        
        \* Put additional constant-, state-, and action-level expressions here:
        \* ,_stateNumber |-> _TEPosition
        \* ,_outUnchanged |-> out = out'
        
        \* Format the `out` variable as Json value.
        \* ,_outJson |->
        \*     LET J == INSTANCE Json
        \*     IN J!ToJson(out)
        
        \* Lastly, you may build expressions over arbitrary sets of states by
        \* leveraging the _TETrace operator.  For example, this is how to
        \* count the number of times a spec variable changed up to the current
        \* state in the trace.
        \* ,_outModCount |->
        \*     LET F[s \in DOMAIN _TETrace] ==
        \*         IF s = 1 THEN 0
        \*         ELSE IF _TETrace[s].out # _TETrace[s-1].out
        \*             THEN 1 + F[s-1] ELSE F[s-1]
        \*     IN F[_TEPosition - 1]
    ]

=============================================================================



Parsing and semantic processing can take forever if the trace below is long.
 In this case, it is advised to uncomment the module below to deserialize the
 trace from a generated binary file.

\*
\*---- MODULE Pool_TETrace ----
\*EXTENDS IOUtils, TLC, Pool
\*
\*trace == IODeserialize("Pool_TTrace_1790884182.bin", TRUE)
\*
\*=============================================================================
\*

---- MODULE Pool_TETrace ----
EXTENDS TLC, Pool

trace == 
    <<
    ([avail |-> {},pc |-> <<"idle", "idle", "idle">>,fresh |-> 0,out |-> {},hold |-> <<0, 0, 0>>]),
    ([avail |-> {},pc |-> <<"wnew", "idle", "idle">>,fresh |-> 0,out |-> {},hold |-> <<0, 0, 0>>]),
    ([avail |-> {},pc |-> <<"wnew", "wnew", "idle">>,fresh |-> 0,out |-> {},hold |-> <<0, 0, 0>>])
    >>
----


=============================================================================

---- CONFIG Pool_TTrace_1790884182 ----
CONSTANTS
    Threads = { 1 , 2 , 3 }
    MaxFresh = 3
    WritesNew = TRUE

INVARIANT
    _inv

CHECK_DEADLOCK
    \* CHECK_DEADLOCK off because of PROPERTY or INVARIANT above.
    FALSE

INIT
    _init

NEXT
    _next

CONSTANT
    _TETrace <- _trace

ALIAS
    _expression
=============================================================================
\* Generated on Thu Oct 01 19:49:43 UTC 2026