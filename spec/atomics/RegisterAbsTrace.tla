---- MODULE RegisterAbsTrace ----
(* Abstract trace validator for the AtomicValue half of C18: is the recorded
   history (sequential tour or concurrent free-running goroutines) linearizable
   to one atomic register?  val = 0: nothing stored yet (Load/Swap give the zero
   value, written 0; stored values are >= 1).  Each call takes effect at a
   silent Lin step between its inv and ret lines. *)
EXTENDS TraceLib, FiniteSets
CONSTANTS Gate, NT
VARIABLES val, pend, l
vars == <<val, pend, l>>
Threads == 1..NT
Ev == Trace[l]
Idle == [op |-> "idle"]
IsEv(e) == l <= Len(Trace) /\ Trace[l].ev = e /\ l' = l + 1
TInit == val = 0 /\ pend = [t \in Threads |-> Idle] /\ l = 1
TReset == IsEv("reset") /\ val' = 0 /\ pend' = [t \in Threads |-> Idle]
TInv == /\ IsEv("inv") /\ pend[Ev.t].op = "idle"
        /\ pend' = [pend EXCEPT ![Ev.t] = [op |-> Ev.op, a |-> Ev.a, b |-> Ev.b, lin |-> FALSE, r |-> 0, ok |-> FALSE, free |-> FALSE]]
        /\ UNCHANGED val
TLin(t) == /\ pend[t].op # "idle" /\ ~pend[t].lin /\ UNCHANGED l
           /\ LET p == pend[t] IN
              CASE p.op = "Load" -> UNCHANGED val /\ pend' = [pend EXCEPT ![t].lin = TRUE, ![t].r = val]
                [] p.op = "Store" -> val' = p.a /\ pend' = [pend EXCEPT ![t].lin = TRUE]
                [] p.op = "Swap" -> val' = p.a /\ pend' = [pend EXCEPT ![t].lin = TRUE, ![t].r = val]
                [] p.op = "CompareAndSwap" ->
                     IF val = 0 THEN   \* before the first Store: result unconstrained; if it reports success the new value is in
                          \/ UNCHANGED val /\ pend' = [pend EXCEPT ![t].lin = TRUE, ![t].ok = FALSE]
                          \/ val' = p.b /\ pend' = [pend EXCEPT ![t].lin = TRUE, ![t].ok = TRUE]
                     ELSE IF val = p.a THEN val' = p.b /\ pend' = [pend EXCEPT ![t].lin = TRUE, ![t].ok = TRUE]
                     ELSE UNCHANGED val /\ pend' = [pend EXCEPT ![t].lin = TRUE, ![t].ok = FALSE]
TRet == /\ IsEv("ret") /\ LET p == pend[Ev.t] IN
           /\ p.op # "idle" /\ p.lin
           /\ (p.op \in {"Load", "Swap"} => Ev.r = p.r)
           /\ (p.op = "CompareAndSwap" => Ev.ok = p.ok)
        /\ pend' = [pend EXCEPT ![Ev.t] = Idle] /\ UNCHANGED val
\* Large workloads, necessary conditions of atomicity checked in one step:
\* swapchain: goroutine g (1..threads) swapped in the tokens g*100000+1..ops; "Swap returns the value it replaced" =>
\* the zero value and every token except the one left at the end are each returned exactly once
Elems(q) == {q[i] : i \in 1..Len(q)}
TSwapChain == /\ IsEv("swapchain") /\ UNCHANGED <<val, pend>>
              /\ LET toks == {g * 100000 + i : g \in 1..Ev.threads, i \in 1..Ev.ops} IN
                 /\ Len(Ev.rets) = Cardinality(toks)
                 /\ Cardinality(Elems(Ev.rets)) = Len(Ev.rets)             \* no value replaced twice
                 /\ Ev.final \in toks /\ Ev.final \notin Elems(Ev.rets)
                 /\ Elems(Ev.rets) \cup {Ev.final} = toks \cup {0}          \* nothing lost, nothing invented
\* casinc: "CompareAndSwap succeeds exactly when the current value equals old": increments are never lost
TCasInc == IsEv("casinc") /\ UNCHANGED <<val, pend>> /\ Ev.final = Ev.start + Ev.succ
\* eqstore: the register holds one value throughout (other goroutines keep storing that same value): "once a value has been
\* stored CompareAndSwap succeeds exactly when the current value equals old" => CompareAndSwap(v, v) never fails
TEqStore == IsEv("eqstore") /\ UNCHANGED <<val, pend>> /\ Ev.fails = 0
\* firststore: rounds on never-used values whose first Load / CompareAndSwap(zero, zero) calls race with the one and only Store(x):
\* afterwards the register holds x ("Load returns ... the most recently stored value")
TFirstStore == IsEv("firststore") /\ UNCHANGED <<val, pend>> /\ Ev.bad = 0
TNext == TReset \/ TInv \/ TRet \/ TSwapChain \/ TCasInc \/ TEqStore \/ TFirstStore \/ \E t \in Threads : TLin(t)
TSpec == TInit /\ [][TNext]_vars
Track == TrackL(l)
Accepted == AcceptedP
====
