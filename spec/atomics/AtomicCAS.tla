---- MODULE AtomicCAS ----
(* Implementation-level model of sync2.AtomicValue.CompareAndSwap over sync/atomic.Value (C18).
   atomic.Value keeps the stored value in a box; Store and Swap install a NEW box, and atomic.Value.CompareAndSwap is
   "load the box, compare its VALUE with old, then compare-and-swap the box POINTER".  It therefore fails not only when
   the value differs but also when the box was replaced in between by a Store of an EQUAL value.  The wrapper must not
   pass that failure on (a register whose value was `old` for the whole call cannot answer false):
     Retry = TRUE   the repaired wrapper: after a failed inner CAS it re-loads and gives up only if the value really differs
     Retry = FALSE  the pinned wrapper (one inner CAS): TLC shows the spurious failure - the defect found through the
                    `eqstore` workload of the C18 check and repaired in /repo (1ec39ed).
   Each goroutine performs one call.  sawNeq[t] is a history variable: at some moment of t's call the register held a
   value different from t's `old` (the only thing that can justify answering false). *)
EXTENDS Integers, FiniteSets, TLC
CONSTANTS Threads, Vals, Retry, MaxBox
VARIABLES box,      \* the box the Value points to
          valOf,    \* box -> value it holds (boxes are never modified)
          nBox, pc, op, tmp, ret, sawNeq
vars == <<box, valOf, nBox, pc, op, tmp, ret, sawNeq>>
None == [k |-> "none", o |-> 0, n |-> 0]
Cur == valOf[box]
Init == /\ box = 1 /\ valOf = [b \in 1..MaxBox |-> IF b = 1 THEN CHOOSE v \in Vals : \A w \in Vals : v <= w ELSE 0] /\ nBox = 1
        /\ pc = [t \in Threads |-> "idle"] /\ op = [t \in Threads |-> None] /\ tmp = [t \in Threads |-> 0]
        /\ ret = [t \in Threads |-> "-"] /\ sawNeq = [t \in Threads |-> FALSE]
\* history bookkeeping, applied by every action: who is inside a CAS call and sees a value different from its `old` now?
Note(newCur, pcs, ops) == [t \in Threads |-> sawNeq[t] \/ (pcs[t] \in {"c1", "c2", "c3"} /\ ops[t].k = "cas" /\ newCur # ops[t].o)]
NewBox(v) == /\ nBox < MaxBox /\ nBox' = nBox + 1 /\ valOf' = [valOf EXCEPT ![nBox + 1] = v] /\ box' = nBox + 1
\* Store(v): one atomic step
Store(t, v) == /\ pc[t] = "idle" /\ ret[t] = "-" /\ NewBox(v)
               /\ op' = [op EXCEPT ![t] = [k |-> "store", o |-> 0, n |-> v]] /\ ret' = [ret EXCEPT ![t] = "stored"]
               /\ sawNeq' = Note(v, pc, op) /\ UNCHANGED <<pc, tmp>>
\* CompareAndSwap(o, n) is invoked ...
Invoke(t, o, n) == /\ pc[t] = "idle" /\ ret[t] = "-" /\ o # n
                   /\ op' = [op EXCEPT ![t] = [k |-> "cas", o |-> o, n |-> n]] /\ pc' = [pc EXCEPT ![t] = "c1"]
                   /\ sawNeq' = [Note(Cur, pc', op') EXCEPT ![t] = Cur # o]
                   /\ UNCHANGED <<box, valOf, nBox, tmp, ret>>
\* ... atomic.Value.CompareAndSwap, first half: load the box and compare the value
C1(t) == /\ pc[t] = "c1" /\ tmp' = [tmp EXCEPT ![t] = box]
         /\ IF Cur # op[t].o THEN pc' = [pc EXCEPT ![t] = "idle"] /\ ret' = [ret EXCEPT ![t] = "false"]
                             ELSE pc' = [pc EXCEPT ![t] = "c2"] /\ UNCHANGED ret
         /\ sawNeq' = Note(Cur, pc, op) /\ UNCHANGED <<box, valOf, nBox, op>>
\* ... second half: compare-and-swap the box pointer
C2(t) == /\ pc[t] = "c2"
         /\ IF box = tmp[t]
            THEN /\ NewBox(op[t].n) /\ pc' = [pc EXCEPT ![t] = "idle"] /\ ret' = [ret EXCEPT ![t] = "true"]
                 /\ sawNeq' = Note(op[t].n, pc', op)
            ELSE /\ UNCHANGED <<box, valOf, nBox>> /\ sawNeq' = Note(Cur, pc, op)
                 /\ IF Retry THEN pc' = [pc EXCEPT ![t] = "c3"] /\ UNCHANGED ret
                             ELSE pc' = [pc EXCEPT ![t] = "idle"] /\ ret' = [ret EXCEPT ![t] = "false"]
         /\ UNCHANGED <<op, tmp>>
\* the wrapper's own check after a failed inner CAS: cur := Load(); give up only if cur differs from old
C3(t) == /\ pc[t] = "c3"
         /\ IF Cur # op[t].o THEN pc' = [pc EXCEPT ![t] = "idle"] /\ ret' = [ret EXCEPT ![t] = "false"]
                             ELSE pc' = [pc EXCEPT ![t] = "c1"] /\ UNCHANGED ret
         /\ sawNeq' = Note(Cur, pc, op) /\ UNCHANGED <<box, valOf, nBox, op, tmp>>
Step(t) == C1(t) \/ C2(t) \/ C3(t) \/ \E v \in Vals : Store(t, v) \/ \E n \in Vals : Invoke(t, v, n)
Next == \E t \in Threads : Step(t)
Spec == Init /\ [][Next]_vars
\* "CompareAndSwap swaps exactly when the current value equals old": answering false needs a moment at which it did not
FalseOnlyIfDiffered == \A t \in Threads : (op[t].k = "cas" /\ ret[t] = "false") => sawNeq[t]
\* a successful swap happened while the value was old (by construction of C2: the box it loaded held old and was still current)
TrueOnlyIfEqual == \A t \in Threads : (pc[t] = "c2") => valOf[tmp[t]] = op[t].o
\* lock-freedom of the retry loop: with fair scheduling every call returns (each retry is caused by another call's progress)
LiveSpec == Spec /\ \A t \in Threads : WF_vars(C1(t) \/ C2(t) \/ C3(t))
EveryCallReturns == \A t \in Threads : (pc[t] # "idle") ~> (pc[t] = "idle")
====
