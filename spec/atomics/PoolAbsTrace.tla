---- MODULE PoolAbsTrace ----
(* Abstract trace validator for the Pool half of C18.  Items are unique tokens
   (New hands out 1000, 1001, ...; 0 is the zero value returned when New is nil
   and is not an item).  get(t, x): Get returned x to goroutine t; put(t, x):
   t is about to Put x back.  "Get returns either a value previously Put and not
   handed out since, or a fresh result of New ... so no value is ever held by
   two Get callers at once."  The pool may drop available items (sync.Pool), so
   a fresh token is always acceptable; a token somebody holds never is. *)
EXTENDS TraceLib, FiniteSets
CONSTANT Gate
VARIABLES held, avail, seen, l
vars == <<held, avail, seen, l>>
Ev == Trace[l]
IsEv(e) == l <= Len(Trace) /\ Trace[l].ev = e /\ l' = l + 1
TInit == held = {} /\ avail = {} /\ seen = {} /\ l = 1
TReset == IsEv("reset") /\ held' = {} /\ avail' = {} /\ seen' = {}
TGet == /\ IsEv("get")
        /\ IF Ev.x = 0 THEN ~Ev.hasnew /\ UNCHANGED <<held, avail, seen>>          \* "(the zero value when New is nil)"
           ELSE /\ Ev.x \notin held                                                 \* never handed to two users at once
                /\ (Ev.x \in avail \/ (Ev.x \notin seen /\ Ev.hasnew))               \* previously Put and not handed out since, or fresh from New
                /\ held' = held \cup {Ev.x} /\ avail' = avail \ {Ev.x} /\ seen' = seen \cup {Ev.x}
TPut == /\ IsEv("put") /\ held' = held \ {Ev.x} /\ avail' = avail \cup {Ev.x} /\ seen' = seen \cup {Ev.x}
\* a whole free-running round summarised by the largest number of simultaneous holders any item ever had
THolders == IsEv("holders") /\ Ev.max <= 1 /\ UNCHANGED <<held, avail, seen>>
TNext == TReset \/ TGet \/ TPut \/ THolders
TSpec == TInit /\ [][TNext]_vars
Track == TrackL(l)
Accepted == AcceptedP
====
