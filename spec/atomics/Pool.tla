---- MODULE Pool ----
(* sync2.Pool[T] (C18): avail = items Put and not handed out since, out = items
   currently held by a Get caller.  Get hands out an available item or a fresh
   result of New; sync.Pool may drop available items at any time (Drop).
   WritesNew = TRUE models the pinned Get, which assigns the shared field
   pool.New on EVERY call: a plain write that conflicts with the same write (and
   with sync.Pool's own read of New) in any concurrent Get -- a data race; the
   repaired Get does not touch shared fields. *)
EXTENDS Integers, FiniteSets, TLC
CONSTANTS Threads, MaxFresh, WritesNew
VARIABLES avail, out, fresh, pc, hold
vars == <<avail, out, fresh, pc, hold>>
Init == avail = {} /\ out = {} /\ fresh = 0 /\ pc = [t \in Threads |-> "idle"] /\ hold = [t \in Threads |-> 0]
GetStart(t) == /\ pc[t] = "idle" /\ hold[t] = 0 /\ pc' = [pc EXCEPT ![t] = IF WritesNew THEN "wnew" ELSE "get"] /\ UNCHANGED <<avail, out, fresh, hold>>
WriteNew(t) == /\ pc[t] = "wnew" /\ pc' = [pc EXCEPT ![t] = "get"] /\ UNCHANGED <<avail, out, fresh, hold>>     \* p.pool.New = func() any {...}
GetItem(t) == /\ pc[t] = "get"
              /\ \/ \E x \in avail : avail' = avail \ {x} /\ out' = out \cup {x} /\ hold' = [hold EXCEPT ![t] = x] /\ UNCHANGED fresh
                 \/ fresh < MaxFresh /\ fresh' = fresh + 1 /\ out' = out \cup {fresh + 1} /\ hold' = [hold EXCEPT ![t] = fresh + 1] /\ UNCHANGED avail
              /\ pc' = [pc EXCEPT ![t] = "idle"]
Put(t) == /\ pc[t] = "idle" /\ hold[t] # 0 /\ avail' = avail \cup {hold[t]} /\ out' = out \ {hold[t]} /\ hold' = [hold EXCEPT ![t] = 0]
          /\ UNCHANGED <<fresh, pc>>
Drop == \E x \in avail : avail' = avail \ {x} /\ UNCHANGED <<out, fresh, pc, hold>>
Next == Drop \/ \E t \in Threads : GetStart(t) \/ WriteNew(t) \/ GetItem(t) \/ Put(t)
Spec == Init /\ [][Next]_vars
\* "no value is ever held by two Get callers at once"
NoDoubleHandOut == \A t, u \in Threads : (t # u /\ hold[t] # 0) => hold[t] # hold[u]
Disjoint == avail \cap out = {}
\* "Concurrent Get and Put calls are free of data races": no two goroutines are about to perform conflicting plain accesses
NoPlainConflict == Cardinality({t \in Threads : pc[t] = "wnew"}) <= 1
====
