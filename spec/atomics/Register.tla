---- MODULE Register ----
(* sync2.AtomicValue[T] as an atomic register (C18), sequential semantics:
   val = 0 means "nothing stored yet" (Load and Swap then yield the zero
   value, which the trace also writes as 0; stored values are >= 1).
   Every wrapper method is one call on atomic.Value plus a type assertion, so
   its concurrent behaviour is that of the underlying atomic operation; the
   concurrent histories of the real code are validated against RegisterAbsTrace. *)
EXTENDS Integers, TLC, Json
CONSTANTS Vals
VARIABLES val, last
O(o, a, b, r, ok) == [op |-> o, a |-> a, b |-> b, ret |-> r, ok |-> ok]
Init == val = 0 /\ last = O("Reset", 0, 0, 0, FALSE)
Load == UNCHANGED val /\ last' = O("Load", 0, 0, val, TRUE)
Store(v) == val' = v /\ last' = O("Store", v, 0, 0, TRUE)
Swap(v) == val' = v /\ last' = O("Swap", v, 0, val, TRUE)
CAS(o, n) == /\ val # 0          \* before the first Store the result is left open by the property
             /\ IF val = o THEN val' = n /\ last' = O("CompareAndSwap", o, n, 0, TRUE)
                ELSE UNCHANGED val /\ last' = O("CompareAndSwap", o, n, 0, FALSE)
CASEmpty(o, n) == val = 0 /\ UNCHANGED val /\ last' = O("CompareAndSwap", o, n, 0, FALSE)   \* what atomic.Value does; not demanded
Next == Load \/ \E v \in Vals : Store(v) \/ Swap(v) \/ \E n \in Vals : CAS(v, n) \/ CASEmpty(v, n)
Spec == Init /\ [][Next]_<<val, last>>
TypeOK == val \in Vals \cup {0}
View == val
LogEdge == PrintT(<<"E", ToJson([f |-> val, t |-> val', op |-> last'])>>)
====
