---- MODULE KeyedLock ----
(* Design-level model of sync2.KeyedMutex / KeyedRWMutex (C09).
   Every call first obtains the key's mutex object with Map.LoadOrStore(key, fresh mutex) -- one atomic step: that
   sync2.Map.LoadOrStore is linearizable is C04's result (SyncMap.tla) -- and then operates on THAT object:
   Lock / RLock block until the object allows it, TryLock / TryRLock never block, the unlock calls look the object up
   again and release it.  objOf maps a key to its mutex object (0: none yet); an object is [w |-> holder or 0, r |-> set of readers].
   Racy = TRUE replaces LoadOrStore by Load-then-Store (a check-then-act lookup): kept as a named deviation so that TLC
   shows what the atomic lookup is for (two goroutines using a never-seen key get two different mutexes). *)
EXTENDS Integers, FiniteSets, TLC
CONSTANTS Threads, Keys, Kinds, Racy, MaxObj, ClearMode, WriterPref, Nest   \* ClearMode: "never" | "quiet" (only when nobody holds or awaits the key) | "any"
VARIABLES objOf, objs, nObj, pc, key, kind, my, holdsW, holdsR
vars == <<objOf, objs, nObj, pc, key, kind, my, holdsW, holdsR>>
Free == [w |-> 0, r |-> {}]
Init == /\ objOf = [k \in Keys |-> 0] /\ objs = [i \in 1..MaxObj |-> Free] /\ nObj = 0
        /\ pc = [t \in Threads |-> "idle"] /\ key = [t \in Threads |-> 0] /\ kind = [t \in Threads |-> ""]
        /\ my = [t \in Threads |-> 0] /\ holdsW = [t \in Threads |-> {}] /\ holdsR = [t \in Threads |-> {}]
\* a thread starts a critical section on a key it does not hold
\* (Nest = FALSE: a goroutine holds at most one key at a time, so that the program itself cannot deadlock - used for liveness)
Start(t, k, kd) == /\ pc[t] = "idle" /\ k \notin holdsW[t] \cup holdsR[t] /\ (Nest \/ holdsW[t] \cup holdsR[t] = {})
                   /\ pc' = [pc EXCEPT ![t] = IF Racy THEN "load" ELSE "get"] /\ key' = [key EXCEPT ![t] = k] /\ kind' = [kind EXCEPT ![t] = kd]
                   /\ UNCHANGED <<objOf, objs, nObj, my, holdsW, holdsR>>
\* m, _ := km.m.LoadOrStore(key, &sync.Mutex{})
Get(t) == /\ pc[t] = "get"
          /\ IF objOf[key[t]] # 0 THEN my' = [my EXCEPT ![t] = objOf[key[t]]] /\ UNCHANGED <<objOf, nObj>>
             ELSE nObj < MaxObj /\ nObj' = nObj + 1 /\ objOf' = [objOf EXCEPT ![key[t]] = nObj + 1] /\ my' = [my EXCEPT ![t] = nObj + 1]
          /\ pc' = [pc EXCEPT ![t] = "acq"] /\ UNCHANGED <<objs, key, kind, holdsW, holdsR>>
\* the racy variant: Load ...
LoadR(t) == /\ pc[t] = "load" /\ my' = [my EXCEPT ![t] = objOf[key[t]]]
            /\ pc' = [pc EXCEPT ![t] = IF objOf[key[t]] # 0 THEN "acq" ELSE "store"] /\ UNCHANGED <<objOf, objs, nObj, key, kind, holdsW, holdsR>>
\* ... then Store of a fresh mutex
StoreR(t) == /\ pc[t] = "store" /\ nObj < MaxObj /\ nObj' = nObj + 1 /\ objOf' = [objOf EXCEPT ![key[t]] = nObj + 1]
             /\ my' = [my EXCEPT ![t] = nObj + 1] /\ pc' = [pc EXCEPT ![t] = "acq"] /\ UNCHANGED <<objs, key, kind, holdsW, holdsR>>
CanW(o) == objs[o].w = 0 /\ objs[o].r = {}
\* sync.RWMutex prefers writers: once a writer waits in Lock, later RLock / TryRLock calls do not get in (WriterPref = TRUE is
\* what Go does; FALSE is kept to let TLC show the reader-starves-writer behaviour it prevents)
WriterWaits(o) == \E u \in Threads : pc[u] = "acq" /\ my[u] = o /\ kind[u] = "lock"
CanR(o) == objs[o].w = 0 /\ (WriterPref => ~WriterWaits(o))
TakeW(t) == /\ objs' = [objs EXCEPT ![my[t]].w = t] /\ holdsW' = [holdsW EXCEPT ![t] = @ \cup {key[t]}] /\ UNCHANGED holdsR
TakeR(t) == /\ objs' = [objs EXCEPT ![my[t]].r = @ \cup {t}] /\ holdsR' = [holdsR EXCEPT ![t] = @ \cup {key[t]}] /\ UNCHANGED holdsW
Acq(t) == /\ pc[t] = "acq"
          /\ CASE kind[t] = "lock" -> CanW(my[t]) /\ TakeW(t)
               [] kind[t] = "rlock" -> IF CanR(my[t]) THEN TakeR(t) ELSE UNCHANGED <<objs, holdsW, holdsR>>   \* registers and sleeps ("rwait")
               [] kind[t] = "try" -> IF CanW(my[t]) THEN TakeW(t) ELSE UNCHANGED <<objs, holdsW, holdsR>>     \* never blocks
               [] kind[t] = "tryr" -> IF CanR(my[t]) THEN TakeR(t) ELSE UNCHANGED <<objs, holdsW, holdsR>>
          /\ pc' = [pc EXCEPT ![t] = IF kind[t] = "rlock" /\ ~CanR(my[t]) THEN "rwait" ELSE "idle"] /\ UNCHANGED <<objOf, nObj, key, kind, my>>
\* UnlockKey / RUnlockKey: look the object up again, release it
Release(t, k) == /\ pc[t] = "idle" /\ k \in holdsW[t] \cup holdsR[t]
                 /\ objOf[k] # 0          \* (after a ClearKey in "any" mode the real code would unlock a brand-new mutex: fatal error)
                 /\ LET o == objOf[k]
                        \* sync.RWMutex.Unlock wakes every reader that registered while the writer held or awaited the lock, and they
                        \* are inside before the next writer can be (simplification: every waiting writer counts as "announced")
                        woken == {u \in Threads : pc[u] = "rwait" /\ my[u] = o} IN
                    IF k \in holdsW[t]
                    THEN /\ objs' = [objs EXCEPT ![o] = [w |-> 0, r |-> woken]]
                         /\ holdsW' = [holdsW EXCEPT ![t] = @ \ {k}]
                         /\ holdsR' = [u \in Threads |-> IF u \in woken THEN holdsR[u] \cup {key[u]} ELSE holdsR[u]]
                         /\ pc' = [u \in Threads |-> IF u \in woken THEN "idle" ELSE pc[u]]
                    ELSE objs' = [objs EXCEPT ![o].r = @ \ {t}] /\ holdsR' = [holdsR EXCEPT ![t] = @ \ {k}] /\ UNCHANGED <<holdsW, pc>>
                 /\ UNCHANGED <<objOf, nObj, key, kind, my>>
\* ClearKey(k) = Map.Delete(k): the key forgets its mutex object.  The property covers it only when no goroutine holds or
\* awaits the key ("quiet"); ClearMode = "any" is the named hazard: LockKey; ClearKey; LockKey gives two holders of one key,
\* and the first holder's UnlockKey then unlocks a fresh, unlocked mutex.
Quiet(k) == \A t \in Threads : k \notin holdsW[t] \cup holdsR[t] /\ ~(pc[t] # "idle" /\ key[t] = k)
ClearKey(k) == /\ ClearMode # "never" /\ (ClearMode = "quiet" => Quiet(k)) /\ objOf[k] # 0
               /\ objOf' = [objOf EXCEPT ![k] = 0] /\ UNCHANGED <<objs, nObj, pc, key, kind, my, holdsW, holdsR>>
Next == \/ \E t \in Threads : Get(t) \/ LoadR(t) \/ StoreR(t) \/ Acq(t) \/ \E k \in Keys : Release(t, k) \/ \E kd \in Kinds : Start(t, k, kd)
        \/ \E k \in Keys : ClearKey(k)
Spec == Init /\ [][Next]_vars
\* "at most one goroutine is between LockKey(k) and UnlockKey(k), or any number between RLockKey(k) and RUnlockKey(k) with no writer inside"
Exclusion == \A k \in Keys : LET W == {t \in Threads : k \in holdsW[t]}  R == {t \in Threads : k \in holdsR[t]} IN
                Cardinality(W) <= 1 /\ (W # {} => R = {})
\* "Holding or waiting for one key never delays ... an acquisition of a different key": whoever waits for a key is
\* enabled as soon as no goroutine holds THAT key incompatibly, whatever happens on other keys
Independence == \A t \in Threads : (pc[t] = "acq" /\ kind[t] = "lock" /\ \A u \in Threads : key[t] \notin holdsW[u] \cup holdsR[u]) => ENABLED Acq(t)
\* Liveness (checked without nesting): if every holder eventually releases and the mutex objects are starvation-free (Go's
\* sync.Mutex starvation mode: a waiter that keeps finding the lock free eventually gets it - strong fairness of Acq), every
\* acquisition eventually returns.
Fair == \A t \in Threads : WF_vars(Get(t)) /\ SF_vars(Acq(t)) /\ \A k \in Keys : WF_vars(Release(t, k))
LiveSpec == Spec /\ Fair
EveryAcquisitionReturns == \A t \in Threads : (pc[t] \in {"acq", "rwait"}) ~> (pc[t] = "idle")
TryNeverBlocks == \A t \in Threads : (pc[t] = "acq" /\ kind[t] \in {"try", "tryr"}) => ENABLED Acq(t)
====
