---- MODULE KeyedLockAbsTrace ----
(* Abstract trace validator for C09.  Per key: the writer inside (0 = none) and the set of readers inside.
   An acquisition takes effect when the acquiring call RETURNS, a release when the releasing call is INVOKED (the
   widest critical section the caller can rely on).  A Try call may fail only if the key is held incompatibly at
   some moment of the call or another call on the same key overlaps it.  A "deadlock" line (the goroutines did not
   finish even when left to run freely, e.g. an acquisition of a free key that waits for a different key) is not
   explained by any action. *)
EXTENDS TraceLib, FiniteSets
CONSTANTS Gate, NK, NT
VARIABLES writer, readers, pend, l
vars == <<writer, readers, pend, l>>
Keys == 1..NK
Threads == (1..NT) \cup {9}
Ev == Trace[l]
Idle == [op |-> "idle", k |-> 0, cont |-> FALSE]
WKinds == {"Lock", "TryLock", "WLock", "TryWLock"}
RKinds == {"RLock", "TryRLock"}
Incompat(op, k, w, r) == IF op \in RKinds THEN w[k] # 0 ELSE w[k] # 0 \/ r[k] # {}
Overlap(t, k) == \E u \in Threads \ {t} : pend[u].op # "idle" /\ pend[u].k = k
\* every pending Try on key k (other than t's) has now seen contention
Contend(pd, t, k) == [u \in Threads |-> IF u # t /\ pd[u].op \in {"TryLock", "TryWLock", "TryRLock"} /\ pd[u].k = k THEN [pd[u] EXCEPT !.cont = TRUE] ELSE pd[u]]
TInit == writer = [k \in Keys |-> 0] /\ readers = [k \in Keys |-> {}] /\ pend = [t \in Threads |-> Idle] /\ l = 1
IsEv(e) == l <= Len(Trace) /\ Trace[l].ev = e /\ l' = l + 1
TReset == IsEv("reset") /\ writer' = [k \in Keys |-> 0] /\ readers' = [k \in Keys |-> {}] /\ pend' = [t \in Threads |-> Idle]
TStuck == IsEv("stuck") /\ UNCHANGED <<writer, readers, pend>>     \* a slow step is not by itself a violation
TInv == /\ IsEv("inv")
        /\ LET t == Ev.t  k == Ev.k  op == Ev.op IN
           /\ pend[t].op = "idle"
           /\ IF op = "Wait" THEN UNCHANGED <<writer, readers>> /\ pend' = [pend EXCEPT ![t] = [op |-> "Wait", k |-> 0, cont |-> FALSE]]
              ELSE IF op \in {"ClearKey", "WClearKey"} THEN
                 \* "(ClearKey is covered only when no goroutine holds or awaits the key.)": it must leave the key usable as a free key
                 /\ writer[k] = 0 /\ readers[k] = {} /\ ~Overlap(t, k)
                 /\ UNCHANGED <<writer, readers>> /\ pend' = [pend EXCEPT ![t] = [op |-> op, k |-> 0, cont |-> FALSE]]
              ELSE
              /\ writer' = IF op \in {"Unlock", "WUnlock", "UnlockIf", "WUnlockIf"} /\ writer[k] = t THEN [writer EXCEPT ![k] = 0] ELSE writer
              /\ readers' = IF op \in {"RUnlock", "RUnlockIf"} THEN [readers EXCEPT ![k] = @ \ {t}] ELSE readers
              /\ (op \in {"Unlock", "WUnlock"} => writer[k] = t)          \* the driver only releases what it holds
              /\ (op = "RUnlock" => t \in readers[k])
              /\ pend' = [Contend(pend, t, k) EXCEPT ![t] = [op |-> op, k |-> k, cont |-> Incompat(op, k, writer, readers) \/ Overlap(t, k)]]
TRet == /\ IsEv("ret")
        /\ LET t == Ev.t  p == pend[t]  k == p.k IN
           /\ p.op # "idle"
           /\ CASE p.op \in {"Lock", "WLock"} \/ (p.op \in {"TryLock", "TryWLock"} /\ Ev.rok) ->
                     /\ writer[k] = 0 /\ readers[k] = {}                 \* exclusion: nobody else is inside
                     /\ Ev.rv = 1                                         \* the harness's own occupancy counter agrees
                     /\ writer' = [writer EXCEPT ![k] = t] /\ UNCHANGED readers
                     /\ pend' = [Contend(pend, t, k) EXCEPT ![t] = Idle]
                [] p.op = "RLock" \/ (p.op = "TryRLock" /\ Ev.rok) ->
                     /\ writer[k] = 0 /\ Ev.rv = 0
                     /\ readers' = [readers EXCEPT ![k] = @ \cup {t}] /\ UNCHANGED writer
                     /\ pend' = [Contend(pend, t, k) EXCEPT ![t] = Idle]
                [] p.op \in {"TryLock", "TryWLock", "TryRLock"} /\ ~Ev.rok ->
                     /\ p.cont \/ Incompat(p.op, k, writer, readers)      \* "succeed when the key is free and uncontended"
                     /\ UNCHANGED <<writer, readers>> /\ pend' = [pend EXCEPT ![t] = Idle]
                [] OTHER -> UNCHANGED <<writer, readers>> /\ pend' = [pend EXCEPT ![t] = Idle]
\* a pending Try observes an incompatible holder at any moment of its call
\* Free-running timelines (driver component keyedfree): "pending" = the call of thread t has not returned after two seconds;
\* that is explained only by a blocking acquisition of a key that is held incompatibly or that another call is pending on
\* (cross-key independence; Try, release and ClearKey never wait).  "quiet" = key k is free, calls wait for it, and for two
\* seconds none of them returned.  "end" = everything was released and every call has returned.
Blocking == {"Lock", "WLock", "RLock"}
TPending == /\ IsEv("pending")
            /\ LET p == pend[Ev.t] IN p.op \in Blocking /\ (Incompat(p.op, p.k, writer, readers) \/ Overlap(Ev.t, p.k))
            /\ UNCHANGED <<writer, readers, pend>>
TQuiet == /\ IsEv("quiet")
          /\ ~(writer[Ev.k] = 0 /\ readers[Ev.k] = {} /\ \E u \in Threads : pend[u].op \in Blocking /\ pend[u].k = Ev.k)
          /\ UNCHANGED <<writer, readers, pend>>
TEnd == IsEv("end") /\ (\A t \in Threads : pend[t].op = "idle") /\ UNCHANGED <<writer, readers, pend>>
TNext == TReset \/ TStuck \/ TInv \/ TRet \/ TPending \/ TQuiet \/ TEnd
TSpec == TInit /\ [][TNext]_vars
Track == TrackL(l)
Accepted == AcceptedP
====
