---- MODULE Queue ----
(* Implementation-level model of lists.Queue and lists.Stack (C16).
   Queue: a lists.List used as PushFront / Back+Remove, here the list's
   element sequence front..back (the pointer-level list is LinkedList.tla, C06).
   Stack: a slice; Push = append, Pop = re-slice to len-1, nil-receiver guard.
   Kind selects which container this instance of the model is.
   The abstract variable `items` (arrival order) is the specification; TLC
   checks the refinement invariants below for every interleaving of calls. *)
EXTENDS Integers, Sequences, TLC, Json
CONSTANTS Vals, MaxLen, Kind
VARIABLES c,      \* concrete contents: queue = list front..back, stack = slice
          items,  \* abstract: values inside, in arrival order
          last    \* observation of the last call (not part of the VIEW)
vars == <<c, items, last>>
Zero == 0
Rev(s) == [i \in 1..Len(s) |-> s[Len(s) + 1 - i]]
Op(o, a, r, ok) == [op |-> o, arg |-> a, ret |-> r, ok |-> ok]
Init == c = <<>> /\ items = <<>> /\ last = Op("Reset", 0, 0, TRUE)

\* ---- queue: Enqueue = list.PushFront, Dequeue = list.Remove(list.Back()) ----
Enqueue(v) == /\ Kind = "queue" /\ Len(c) < MaxLen
              /\ c' = <<v>> \o c /\ items' = Append(items, v)
              /\ last' = Op("Enqueue", v, 0, TRUE)
Dequeue == /\ Kind = "queue"
           /\ IF c = <<>> THEN UNCHANGED <<c, items>> /\ last' = Op("Dequeue", 0, Zero, FALSE)
              ELSE /\ c' = SubSeq(c, 1, Len(c) - 1) /\ items' = Tail(items)
                   /\ last' = Op("Dequeue", 0, c[Len(c)], TRUE)
QPeek == /\ Kind = "queue" /\ UNCHANGED <<c, items>>
         /\ last' = IF c = <<>> THEN Op("Peek", 0, Zero, FALSE) ELSE Op("Peek", 0, c[Len(c)], TRUE)
\* ---- stack ----
Push(v) == /\ Kind = "stack" /\ Len(c) < MaxLen
           /\ c' = Append(c, v) /\ items' = Append(items, v)
           /\ last' = Op("Push", v, 0, TRUE)
Pop == /\ Kind = "stack"
       /\ IF c = <<>> THEN UNCHANGED <<c, items>> /\ last' = Op("Pop", 0, Zero, FALSE)
          ELSE /\ c' = SubSeq(c, 1, Len(c) - 1) /\ items' = SubSeq(items, 1, Len(items) - 1)
               /\ last' = Op("Pop", 0, c[Len(c)], TRUE)
SPeek == /\ Kind = "stack" /\ UNCHANGED <<c, items>>
         /\ last' = IF c = <<>> THEN Op("Peek", 0, Zero, FALSE) ELSE Op("Peek", 0, c[Len(c)], TRUE)
Next == (\E v \in Vals : Enqueue(v) \/ Push(v)) \/ Dequeue \/ QPeek \/ Pop \/ SPeek
Spec == Init /\ [][Next]_vars

\* ---- the property on the model ----
Refines == IF Kind = "queue" THEN Rev(c) = items ELSE c = items
\* FIFO / LIFO, zero+false on empty, Peek = what the next removal returns
RetOK == CASE last.op = "Dequeue" -> TRUE  \* checked as action property below
           [] OTHER -> TRUE
FifoLifo == [][
   /\ (last'.op = "Dequeue" => IF items = <<>> THEN last'.ok = FALSE /\ last'.ret = Zero /\ items' = <<>>
                                  ELSE last'.ok /\ last'.ret = Head(items) /\ items' = Tail(items))
   /\ (last'.op = "Pop" => IF items = <<>> THEN last'.ok = FALSE /\ last'.ret = Zero /\ items' = <<>>
                              ELSE last'.ok /\ last'.ret = items[Len(items)] /\ items' = SubSeq(items, 1, Len(items) - 1))
   /\ (last'.op = "Peek" => /\ items' = items
                            /\ IF items = <<>> THEN last'.ok = FALSE /\ last'.ret = Zero
                               ELSE last'.ok /\ last'.ret = (IF Kind = "queue" THEN Head(items) ELSE items[Len(items)]))
   ]_vars
View == <<c, items>>
LogEdge == PrintT(<<"E", ToJson([f |-> c, t |-> c', op |-> last'])>>)
====
