---- MODULE QueueAbsTrace ----
(* Abstract trace validator for C16.  State = the values inside, in arrival
   order.  Every clause quotes the property statement. *)
EXTENDS TraceLib
CONSTANT Gate
VARIABLES items, prev, kind, l
vars == <<items, prev, kind, l>>
Ev == Trace[l]
Zero == 0
NextOf(k, s) == IF k = "queue" THEN Head(s) ELSE s[Len(s)]
DropNext(k, s) == IF k = "queue" THEN Tail(s) ELSE SubSeq(s, 1, Len(s) - 1)
\* state update determined by the call alone
After(k, s, e) == CASE e.op \in {"Enqueue", "Push"} -> Append(s, e.arg)
                    [] e.op \in {"Dequeue", "Pop"} -> IF s = <<>> THEN s ELSE DropNext(k, s)
                    [] OTHER -> s
\* "returns values ... in exactly the order they were Enqueued / reverse order they were Pushed";
\* "on an empty container return the zero value and false"
C_Ret(k, p, e) == e.op \in {"Dequeue", "Pop", "Peek"} =>
                    IF p = <<>> THEN e.ok = FALSE /\ e.ret = Zero
                    ELSE e.ok = TRUE /\ e.ret = NextOf(k, p)
\* "Len is the number of values inside"
C_Len(s, e) == e.len = Len(s)
\* "Peek returns what the next Dequeue/Pop would return without removing it" (observed after every call)
C_PeekAfter(k, s, e) == IF s = <<>> THEN e.pok = FALSE /\ e.pv = Zero ELSE e.pok = TRUE /\ e.pv = NextOf(k, s)
C_NoPanic(e) == e.panic = ""
All(k, p, s, e) == C_Ret(k, p, e) /\ C_Len(s, e) /\ C_PeekAfter(k, s, e) /\ C_NoPanic(e)
TInit == items = <<>> /\ prev = <<>> /\ kind = "queue" /\ l = 1
Reset == /\ l <= Len(Trace) /\ Ev.op = "Reset" /\ l' = l + 1
         /\ items' = <<>> /\ prev' = <<>> /\ kind' = Ev.kind
Step == /\ l <= Len(Trace) /\ Ev.op # "Reset" /\ l' = l + 1
        /\ items' = After(kind, items, Ev) /\ prev' = items /\ kind' = kind
        /\ (Gate => All(kind, items, items', Ev))
TSpec == TInit /\ [][Reset \/ Step]_vars
Obs == Trace[l - 1]
Chk == ~Gate /\ l > 1 /\ Obs.op # "Reset"
I_Ret == Chk => C_Ret(kind, prev, Obs)
I_Len == Chk => C_Len(items, Obs)
I_PeekAfter == Chk => C_PeekAfter(kind, items, Obs)
I_NoPanic == Chk => C_NoPanic(Obs)
Track == TrackL(l)
Accepted == AcceptedP
====
