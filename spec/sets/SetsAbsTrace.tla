---- MODULE SetsAbsTrace ----
(* Abstract trace validator for C03.  One line = one scenario on the real
   sets: operands A and B (either implementation, each built by a recorded
   construction history; B may be the very same object as A), one operation,
   and full observations (Slice, Len, Has over the universe, Range enumeration,
   String) of A, B and the result R before and after, including detachment
   probes (mutate R, look at A and B; mutate A, look at R). Membership is a set
   of values 1..nu; enumeration order is free. *)
EXTENDS TraceLib, FiniteSets
CONSTANT Gate
VARIABLES l
vars == <<l>>
Ev == Trace[l]
Elems(s) == {s[i] : i \in 1..Len(s)}
NoDup(s) == Len(s) = Cardinality(Elems(s))
Mem(o) == {v \in 1..Len(o.has) : o.has[v]}
\* "Len, Has, Slice, Range, ... String agree with the membership model (every member enumerated exactly once)"
ObsOK(o) == /\ NoDup(o.sl) /\ Elems(o.sl) = Mem(o) /\ o.len = Cardinality(Mem(o))
            /\ NoDup(o.rng) /\ Elems(o.rng) = Mem(o)
            /\ (Cardinality(Mem(o)) = 0 => o.str = "{}")
            /\ (Cardinality(Mem(o)) = 1 => o.str = "{" \o ToString(CHOOSE v \in Mem(o) : TRUE) \o "}")
\* membership after replaying a construction history; every step's reported result must be "membership changed"
RECURSIVE Replay(_, _, _)
Replay(m, h, i) == IF i > Len(h) THEN <<m, TRUE>> ELSE
   LET c == h[i]
       r == CASE c.op = "Add" -> <<m \cup {c.k}, c.rok = (c.k \notin m)>>
              [] c.op = "Remove" -> <<m \ {c.k}, c.rok = (c.k \in m)>>
              [] c.op = "Has" -> <<m, c.rok = (c.k \in m)>>
              [] c.op = "Len" -> <<m, c.rv = Cardinality(m)>>
              [] OTHER -> <<m, TRUE>>
       rest == Replay(r[1], h, i + 1)
   IN <<rest[1], r[2] /\ rest[2]>>
\* "Add and Remove report true exactly when membership changed" + the operands really hold what their history says
C_Build(e) == LET ra == Replay(Elems(e.a.init), e.a.hist, 1)  rb == Replay(Elems(e.b.init), e.b.hist, 1) IN
              /\ ra[2] /\ Mem(e.a0) = ra[1] /\ ObsOK(e.a0)
              /\ (IF e.same THEN Mem(e.b0) = Mem(e.a0) ELSE rb[2] /\ Mem(e.b0) = rb[1]) /\ ObsOK(e.b0)
A0(e) == Mem(e.a0)
B0(e) == Mem(e.b0)
Expected(e) == CASE e.op = "Union" -> A0(e) \cup B0(e) [] e.op = "Intersect" -> A0(e) \cap B0(e)
                 [] e.op = "SetDiff" -> A0(e) \ B0(e) [] e.op = "SymDiff" -> (A0(e) \ B0(e)) \cup (B0(e) \ A0(e))
                 [] e.op = "Clone" -> A0(e) [] OTHER -> {}
IsBin(e) == e.op \in {"Union", "Intersect", "SetDiff", "SymDiff", "Clone"}
\* "return exactly A u B, ... as a new set, leaving A and B unchanged and sharing no state with them"
C_Result(e) == IsBin(e) => /\ ObsOK(e.r1) /\ Mem(e.r1) = Expected(e)
                           /\ Mem(e.a1) = A0(e) /\ Mem(e.b1) = B0(e) /\ ObsOK(e.a1) /\ ObsOK(e.b1)
\* detachment: R was changed by Add(px)/Remove(py) -> A and B unchanged, R changed as told; then A changed -> R unchanged
C_Detached(e) == IsBin(e) => /\ Mem(e.a2) = A0(e) /\ Mem(e.b2) = B0(e)
                             /\ Mem(e.r2) = (Expected(e) \cup {e.px}) \ {e.py}
                             /\ Mem(e.r3) = Mem(e.r2)
                             /\ Mem(e.a3) = (IF e.same THEN (A0(e) \cup {e.py}) \ {e.px} ELSE (A0(e) \cup {e.py}) \ {e.px})
\* "AddSet and RemoveSet return exactly the number of members gained or lost"
C_Bulk(e) == CASE e.op = "AddSet" -> /\ e.rv = Cardinality(B0(e) \ A0(e)) /\ Mem(e.a1) = A0(e) \cup B0(e)
                                     /\ Mem(e.b1) = (IF e.same THEN Mem(e.a1) ELSE B0(e)) /\ ObsOK(e.a1) /\ ObsOK(e.b1)
               [] e.op = "RemoveSet" -> /\ e.rv = Cardinality(A0(e) \cap B0(e)) /\ Mem(e.a1) = A0(e) \ B0(e)
                                        /\ Mem(e.b1) = (IF e.same THEN Mem(e.a1) ELSE B0(e)) /\ ObsOK(e.a1) /\ ObsOK(e.b1)
               [] OTHER -> TRUE
\* "CartesianProduct yields exactly the |A|*|B| distinct pairs"
C_Product(e) == e.op = "Product" => /\ Len(e.prod) = Cardinality(A0(e)) * Cardinality(B0(e))
                                    /\ {<<e.prod[i][1], e.prod[i][2]>> : i \in 1..Len(e.prod)} = A0(e) \X B0(e)
\* "Range stops as soon as its callback says so"
C_RangeStop(e) == e.op = "RangeStop" => /\ Len(e.vis) = (IF e.n < Cardinality(A0(e)) THEN e.n ELSE Cardinality(A0(e)))
                                        /\ NoDup(e.vis) /\ Elems(e.vis) \subseteq A0(e) /\ Mem(e.a1) = A0(e)
\* "the NewSetFrom* constructors agree with the membership model"
C_Ctor(e) == e.op = "Ctor" => ObsOK(e.r1) /\ Mem(e.r1) = Elems(e.vals)
\* String for other element types (arrays, strings that contain brackets, pointers to structs, the empty string): "{" members in
\* some order, separated by one space, each printed as fmt prints it "}"
Txt(ety, v) == CASE ety = "arr" -> "[" \o ToString(v) \o " " \o ToString(v + 1) \o "]"
                 [] ety = "bstr" -> "[" \o ToString(v) \o "]"
                 [] ety = "ptr" -> "&{" \o ToString(v) \o " " \o ToString(v + 1) \o "}"
                 [] ety = "str" -> (IF v = 0 THEN "" ELSE "s" \o ToString(v))
                 [] OTHER -> ToString(v)
RECURSIVE JoinT(_, _)
JoinT(ety, q) == IF q = <<>> THEN "" ELSE IF Len(q) = 1 THEN Txt(ety, q[1]) ELSE Txt(ety, q[1]) \o " " \o JoinT(ety, Tail(q))
Perms(S) == {q \in [1..Cardinality(S) -> S] : \A i, j \in 1..Cardinality(S) : i # j => q[i] # q[j]}
C_StringTy(e) == e.op = "StringTy" => \E q \in Perms(Elems(e.vals)) : e.sty = "{" \o JoinT(e.ety, q) \o "}"
C_NoPanic(e) == e.panic = ""
All(e) == C_NoPanic(e) /\ C_Build(e) /\ C_Result(e) /\ C_Detached(e) /\ C_Bulk(e) /\ C_Product(e) /\ C_RangeStop(e) /\ C_Ctor(e) /\ C_StringTy(e)
TInit == l = 1
Step == l <= Len(Trace) /\ l' = l + 1 /\ (Gate => All(Ev))
TSpec == TInit /\ [][Step]_vars
Obs == Trace[l - 1]
Chk == ~Gate /\ l > 1
I_NoPanic == Chk => C_NoPanic(Obs)
I_Build == Chk => C_Build(Obs)
I_Result == Chk => C_Result(Obs)
I_Detached == Chk => C_Detached(Obs)
I_Bulk == Chk => C_Bulk(Obs)
I_Product == Chk => C_Product(Obs)
I_RangeStop == Chk => C_RangeStop(Obs)
I_Ctor == Chk => C_Ctor(Obs)
I_StringTy == Chk => C_StringTy(Obs)
Track == TrackL(l)
Accepted == AcceptedP
====
