---- MODULE Sets ----
(* C03 design level: the set operations as the code composes them (set.go in
   maps and sync2 is the same composition over different storage), checked
   against set algebra for every pair of subsets of the universe:
     Union(A,B)    = Clone(A) then AddSet(B)
     Intersect     = the members of A that B Has
     SetDiff       = the members of A that B does not Have
     SymDiff       = SetDiff(A,B), then add every member of B that A does not Have
     AddSet(A,B)   = Add each member of B, counting the Adds that changed membership
     RemoveSet     = Remove each member of B, counting likewise
   The enumeration order of a set is arbitrary: the loops are folds over ANY
   order (checked for every permutation for |U| <= 3).  The concurrent set's
   storage layouts are SyncMap.tla run by one goroutine (see C04/C05); the
   pairs (A,B) explored here are the drivers of the real-code scenarios. *)
EXTENDS Integers, FiniteSets, Sequences, TLC, Json
CONSTANTS U
VARIABLES last
Perms(S) == {f \in [1..Cardinality(S) -> S] : \A i, j \in 1..Cardinality(S) : i # j => f[i] # f[j]}
\* AddSet as a loop over an enumeration `ord` of B: <<resulting members, count>>
RECURSIVE AddLoop(_, _, _, _)
AddLoop(A, ord, i, n) == IF i > Len(ord) THEN <<A, n>> ELSE AddLoop(A \cup {ord[i]}, ord, i + 1, n + (IF ord[i] \in A THEN 0 ELSE 1))
RECURSIVE RemLoop(_, _, _, _)
RemLoop(A, ord, i, n) == IF i > Len(ord) THEN <<A, n>> ELSE RemLoop(A \ {ord[i]}, ord, i + 1, n + (IF ord[i] \in A THEN 1 ELSE 0))
UnionT(A, B, ord) == AddLoop(A, ord, 1, 0)[1]
IntersectT(A, B) == {v \in A : v \in B}
SetDiffT(A, B) == {v \in A : v \notin B}
SymDiffT(A, B) == SetDiffT(A, B) \cup {v \in B : v \notin A}
Init == last = [a |-> {}, b |-> {}]
Next == \E A \in SUBSET U, B \in SUBSET U : last' = [a |-> A, b |-> B]
Spec == Init /\ [][Next]_last
AlgebraOK == LET A == last.a  B == last.b IN
  /\ \A ord \in Perms(B) : /\ UnionT(A, B, ord) = A \cup B
                           /\ AddLoop(A, ord, 1, 0) = <<A \cup B, Cardinality(B \ A)>>
                           /\ RemLoop(A, ord, 1, 0) = <<A \ B, Cardinality(A \cap B)>>
  /\ IntersectT(A, B) = A \cap B /\ SetDiffT(A, B) = A \ B
  /\ SymDiffT(A, B) = (A \ B) \cup (B \ A)
  /\ Cardinality(A \X B) = Cardinality(A) * Cardinality(B)
View == last
SetSeq(S) == LET RECURSIVE F(_) F(T) == IF T = {} THEN <<>> ELSE LET x == CHOOSE y \in T : \A z \in T : y <= z IN <<x>> \o F(T \ {x}) IN F(S)
LogEdge == PrintT(<<"E", ToJson([f |-> <<>>, t |-> <<SetSeq(last'.a), SetSeq(last'.b)>>, op |-> [a |-> SetSeq(last'.a), b |-> SetSeq(last'.b)]])>>)
====
