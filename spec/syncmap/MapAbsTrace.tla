---- MODULE MapAbsTrace ----
(* Abstract trace validator for C04 (and, with set wrappers, C05): is the
   recorded history of invocations and returns linearizable to an ordinary
   map?  abs is the abstract map (0 = absent); each pending call takes effect
   at a silent Lin step somewhere between its "inv" and its "ret" line and must
   return what the abstract map returned there.  Range is the non-atomic
   operation of the property: at most one callback per key, only with a value
   the key held at some moment during the call, and every key present and
   untouched for the whole call is visited.
   A history is accepted iff some interleaving of Lin steps explains every
   line (TLC explores them all; acceptance by high-water mark). *)
EXTENDS TraceLib, FiniteSets
CONSTANTS Gate, NK, NT
VARIABLES abs, pend, l
vars == <<abs, pend, l>>
Keys == 1..NK
Threads == (1..NT) \cup {9}
Ev == Trace[l]
Idle == [op |-> "idle"]
Apply(a, p) ==
  CASE p.op = "Load" -> [a |-> a, rv |-> a[p.k], rok |-> a[p.k] # 0, mut |-> FALSE]
    [] p.op = "Store" -> [a |-> [a EXCEPT ![p.k] = p.v], rv |-> 0, rok |-> FALSE, mut |-> TRUE]
    [] p.op = "LoadOrStore" -> IF a[p.k] # 0 THEN [a |-> a, rv |-> a[p.k], rok |-> TRUE, mut |-> FALSE]
                                ELSE [a |-> [a EXCEPT ![p.k] = p.v], rv |-> p.v, rok |-> FALSE, mut |-> TRUE]
    [] p.op = "LoadAndDelete" -> [a |-> [a EXCEPT ![p.k] = 0], rv |-> a[p.k], rok |-> a[p.k] # 0, mut |-> a[p.k] # 0]
    [] p.op = "Delete" -> [a |-> [a EXCEPT ![p.k] = 0], rv |-> 0, rok |-> FALSE, mut |-> a[p.k] # 0]
RangeSt(a) == [op |-> "Range", seen |-> [k \in Keys |-> IF a[k] # 0 THEN {a[k]} ELSE {}], touched |-> [k \in Keys |-> a[k] = 0]]
Note(pd, k, nv) == [u \in Threads |-> IF pd[u].op = "Range"
                                      THEN [pd[u] EXCEPT !.seen[k] = @ \cup (IF nv # 0 THEN {nv} ELSE {}), !.touched[k] = TRUE]
                                      ELSE pd[u]]
TInit == abs = [k \in Keys |-> 0] /\ pend = [t \in Threads |-> Idle] /\ l = 1
IsEv(e) == l <= Len(Trace) /\ Trace[l].ev = e /\ l' = l + 1
TReset == IsEv("reset") /\ abs' = [k \in Keys |-> 0] /\ pend' = [t \in Threads |-> Idle]
TInv == /\ IsEv("inv")
        /\ LET t == Ev.t IN
           /\ pend[t].op = "idle"
           /\ pend' = [pend EXCEPT ![t] = IF Ev.op = "Range" THEN RangeSt(abs)
                                          ELSE [op |-> Ev.op, k |-> Ev.k, v |-> Ev.v, lin |-> FALSE, rv |-> 0, rok |-> FALSE]]
        /\ UNCHANGED abs
\* the call of thread t takes effect now
TLin(t) == /\ pend[t].op \notin {"idle", "Range"} /\ ~pend[t].lin
           /\ LET r == Apply(abs, pend[t])
                  p1 == [pend EXCEPT ![t].lin = TRUE, ![t].rv = r.rv, ![t].rok = r.rok] IN
              /\ abs' = r.a
              /\ pend' = IF r.mut THEN Note(p1, pend[t].k, r.a[pend[t].k]) ELSE p1
           /\ UNCHANGED l
\* rep = k1,v1,k2,v2,... in callback order
RepKeys(rep) == [i \in 1..(Len(rep) \div 2) |-> rep[2 * i - 1]]
RangeOK(p, rep) ==
  LET ks == RepKeys(rep) IN
  /\ \A i, j \in 1..Len(ks) : i # j => ks[i] # ks[j]                              \* "at most once per key"
  /\ \A i \in 1..Len(ks) : ks[i] \in Keys /\ rep[2 * i] \in p.seen[ks[i]]         \* "only with a value that key held at some moment during the Range call"
  /\ \A k \in Keys : ~p.touched[k] => \E i \in 1..Len(ks) : ks[i] = k             \* "visits every key that was present and untouched for the whole call"
TRet == /\ IsEv("ret")
        /\ LET t == Ev.t IN
           /\ IF pend[t].op = "Range" THEN RangeOK(pend[t], Ev.rep)
              ELSE pend[t].op # "idle" /\ pend[t].lin /\ pend[t].rv = Ev.rv /\ pend[t].rok = Ev.rok
           /\ pend' = [pend EXCEPT ![t] = Idle]
        /\ UNCHANGED abs
TNext == TReset \/ TInv \/ TRet \/ \E t \in Threads : TLin(t)
TSpec == TInit /\ [][TNext]_vars
Track == TrackL(l)
Accepted == AcceptedP
====
