---- MODULE SetAbsTrace ----
(* Abstract trace validator for C05: is the recorded history of a sync2.Set
   explained by one atomic set?  Add/Remove/Has take effect atomically at a
   silent Lin step between invocation and return; AddSet(S)/RemoveSet(S) are
   one atomic Add/Remove per element of S at distinct instants inside the call
   and return the number that succeeded; Len/Slice are the non-atomic
   enumeration (every member present and untouched for the whole call is
   counted, nothing is counted that was never a member during the call).
   Per value this is exactly "successful Adds and Removes alternate, starting
   with an Add, in an order consistent with real time". *)
EXTENDS TraceLib, FiniteSets
CONSTANTS Gate, NK, NT
VARIABLES mem, pend, l
vars == <<mem, pend, l>>
Keys == 1..NK
Threads == (1..NT) \cup {9}
Ev == Trace[l]
Idle == [op |-> "idle"]
Elems(s) == {s[i] : i \in 1..Len(s)}
EnumSt(m) == [seen |-> m, touched |-> Keys \ m]     \* seen: members at some moment of the call; touched: absent at invocation or changed since
Note(pd, k, nowIn) == [u \in Threads |-> IF pd[u].op \in {"Len", "Slice"}
                                         THEN [pd[u] EXCEPT !.e.seen = IF nowIn THEN @ \cup {k} ELSE @, !.e.touched = @ \cup {k}]
                                         ELSE pd[u]]
TInit == mem = {} /\ pend = [t \in Threads |-> Idle] /\ l = 1
IsEv(e) == l <= Len(Trace) /\ Trace[l].ev = e /\ l' = l + 1
TReset == IsEv("reset") /\ mem' = {} /\ pend' = [t \in Threads |-> Idle]
TInv == /\ IsEv("inv")
        /\ pend[Ev.t].op = "idle"
        /\ pend' = [pend EXCEPT ![Ev.t] =
             CASE Ev.op \in {"Add", "Remove", "Has"} -> [op |-> Ev.op, k |-> Ev.k, lin |-> FALSE, ok |-> FALSE]
               [] Ev.op \in {"AddSet", "RemoveSet"} -> [op |-> Ev.op, todo |-> Elems(Ev.s), cnt |-> 0]
               [] OTHER -> [op |-> Ev.op, e |-> EnumSt(mem)]]
        /\ UNCHANGED mem
\* one atomic element operation; returns <<new members, success>>
ElemOp(kind, m, k) == IF kind = "Add" THEN <<m \cup {k}, k \notin m>> ELSE <<m \ {k}, k \in m>>
TLin(t) == /\ pend[t].op \in {"Add", "Remove", "Has"} /\ ~pend[t].lin
           /\ IF pend[t].op = "Has"
              THEN /\ pend' = [pend EXCEPT ![t].lin = TRUE, ![t].ok = (pend[t].k \in mem)] /\ UNCHANGED mem
              ELSE LET r == ElemOp(pend[t].op, mem, pend[t].k)
                       p1 == [pend EXCEPT ![t].lin = TRUE, ![t].ok = r[2]] IN
                   /\ mem' = r[1]
                   /\ pend' = IF r[2] THEN Note(p1, pend[t].k, pend[t].k \in r[1]) ELSE p1
           /\ UNCHANGED l
TLinElem(t) == /\ pend[t].op \in {"AddSet", "RemoveSet"}
               /\ \E x \in pend[t].todo :
                    LET r == ElemOp(IF pend[t].op = "AddSet" THEN "Add" ELSE "Remove", mem, x)
                        p1 == [pend EXCEPT ![t].todo = @ \ {x}, ![t].cnt = @ + (IF r[2] THEN 1 ELSE 0)] IN
                    /\ mem' = r[1]
                    /\ pend' = IF r[2] THEN Note(p1, x, x \in r[1]) ELSE p1
               /\ UNCHANGED l
TRet == /\ IsEv("ret")
        /\ LET p == pend[Ev.t] IN
           CASE p.op \in {"Add", "Remove", "Has"} -> p.lin /\ p.ok = Ev.rok
             [] p.op \in {"AddSet", "RemoveSet"} -> p.todo = {} /\ p.cnt = Ev.rv
             [] p.op = "Len" -> Ev.rv >= Cardinality(Keys \ p.e.touched) /\ Ev.rv <= Cardinality(p.e.seen)
             [] p.op = "Slice" -> /\ Len(Ev.rep) = Cardinality(Elems(Ev.rep))              \* every member enumerated at most once
                                  /\ Elems(Ev.rep) \subseteq p.e.seen /\ (Keys \ p.e.touched) \subseteq Elems(Ev.rep)
             [] OTHER -> FALSE
        /\ pend' = [pend EXCEPT ![Ev.t] = Idle]
        /\ UNCHANGED mem
\* a batch of free-running rounds with stable members, never-added values and churn on other values, summarised: "Has never
\* reports a value that was never added or misses one that is stably present" (and Len stays between the stable count and
\* stable + churn values)
TStable == IsEv("stable") /\ Ev.misses = 0 /\ Ev.ghosts = 0 /\ Ev.lenbad = 0 /\ UNCHANGED <<mem, pend>>
TNext == TStable \/ TReset \/ TInv \/ TRet \/ \E t \in Threads : TLin(t) \/ TLinElem(t)
TSpec == TInit /\ [][TNext]_vars
Track == TrackL(l)
Accepted == AcceptedP
====
