---- MODULE SyncMap ----
(* Implementation-level model of sync2.Map (C04; also the substrate of C03,
   C05, C09): the read-map / dirty-map / expunged-entry machine of
   sync2/map.go, one action per atomic or mutex-protected step.  pc values are
   the names of the verif hook sites in the Go source (LD1, ST2, DL1, RG3 ...):
   a goroutine parked at hook X is a thread with pc = X, and the code between
   two hooks is one action (accesses to dirty/misses happen only under mu, so
   by Lipton reduction they commute into the neighbouring atomic access).
   Entries live in a heap `ep` (entry id -> 0 nil | -1 expunged | value);
   readM/dirty map a key to an entry id (0 = no entry).
   Threads choose their next call when they start it.  A set-up thread (id 9)
   first runs up to SetupLen calls alone, so the concurrent phase starts from
   every reachable layout.
   The variable cfgs is an on-line linearizability monitor (no guessed
   linearization points): the set of configurations [abstract map, per-thread
   status] consistent with the history so far; Range is monitored as the
   non-atomic operation the property describes. *)
EXTENDS Integers, Sequences, FiniteSets, TLC
CONSTANTS Threads, Keys, MaxE, OpKinds, NOps, SetupLen
\* pointer values: 0 = nil, -1 = expunged, >0 = pointer to value (value identity)
NilP == 0
Exp == -1
VARIABLES readM, amended, dirty, dirtyNil, misses, mu, ep, nE, pc, loc, cur, cnt, cfgs, phase
vars == <<readM, amended, dirty, dirtyNil, misses, mu, ep, nE, pc, loc, cur, cnt, cfgs, phase>>
NoKeys == [k \in Keys |-> 0]
S0 == 9
AllT == Threads \cup {S0}
OpSet == [op : OpKinds, k : Keys]
Progs(n) == UNION {[1..m -> OpSet] : m \in 0..n}
ValOf(t, i) == t * 10 + i
L0 == [rm |-> NoKeys, ram |-> FALSE, e |-> 0, ok |-> FALSE, p |-> 0, rem |-> {}, ctx |-> "", rv |-> 0, rok |-> FALSE, dk |-> 0, rep |-> NoKeys]

\* ---------- linearizability monitor ----------
\* result of applying a call to the abstract map: new map, return value, "loaded/ok" flag, did it mutate its key
AbsApply(a, o) ==
  CASE o.op = "Load" -> [a |-> a, rv |-> a[o.k], rok |-> a[o.k] # 0, mut |-> FALSE]
    [] o.op = "Store" -> [a |-> [a EXCEPT ![o.k] = o.v], rv |-> 0, rok |-> FALSE, mut |-> TRUE]
    [] o.op = "LoadOrStore" -> IF a[o.k] # 0 THEN [a |-> a, rv |-> a[o.k], rok |-> TRUE, mut |-> FALSE]
                                ELSE [a |-> [a EXCEPT ![o.k] = o.v], rv |-> o.v, rok |-> FALSE, mut |-> TRUE]
    [] o.op = "LoadAndDelete" -> [a |-> [a EXCEPT ![o.k] = 0], rv |-> a[o.k], rok |-> a[o.k] # 0, mut |-> a[o.k] # 0]
    [] o.op = "Delete" -> [a |-> [a EXCEPT ![o.k] = 0], rv |-> 0, rok |-> FALSE, mut |-> a[o.k] # 0]
NoneLin == [st |-> "idle"]
\* a Range call in progress: per key the values it held at some moment of the call so far, and whether
\* the key was absent at the invocation or mutated since ("touched")
RangeSt(a) == [st |-> "range", seen |-> [k \in Keys |-> IF a[k] # 0 THEN {a[k]} ELSE {}], touched |-> [k \in Keys |-> a[k] = 0]]
Note(l, k, nv) == [u \in AllT |-> IF l[u].st = "range"
                                  THEN [l[u] EXCEPT !.seen[k] = @ \cup (IF nv # 0 THEN {nv} ELSE {}), !.touched[k] = TRUE]
                                  ELSE l[u]]
StepCfgs(C) == C \cup UNION { { LET o == c.l[t].o
                                    r == AbsApply(c.a, o)
                                    l1 == [c.l EXCEPT ![t] = [st |-> "lin", o |-> o, rv |-> r.rv, rok |-> r.rok]]
                                IN [a |-> r.a, l |-> IF r.mut THEN Note(l1, o.k, r.a[o.k]) ELSE l1]
                                : t \in {u \in AllT : c.l[u].st = "pend"} } : c \in C }
RECURSIVE Close(_)
Close(C) == LET D == StepCfgs(C) IN IF D = C THEN C ELSE Close(D)
MonInvoke(C, t, o) == IF o.op = "Range" THEN { [c EXCEPT !.l[t] = RangeSt(c.a)] : c \in C }
                      ELSE { [c EXCEPT !.l[t] = [st |-> "pend", o |-> o]] : c \in C }
MonReturn(C, t, rv, rok) == { [c EXCEPT !.l[t] = NoneLin] : c \in { d \in Close(C) : d.l[t].st = "lin" /\ d.l[t].rv = rv /\ d.l[t].rok = rok } }
\* Range returns having called back rep[k] for key k (0 = not called): every reported value was held during the call,
\* every key present and untouched for the whole call was reported
MonReturnRange(C, t, rep) == { [c EXCEPT !.l[t] = NoneLin] : c \in { d \in Close(C) : d.l[t].st = "range" /\
                                  \A k \in Keys : (rep[k] # 0 => rep[k] \in d.l[t].seen[k]) /\ (~d.l[t].touched[k] => rep[k] # 0) } }

\* ---------- helpers ----------
NoOp == [op |-> "none", k |-> 0, v |-> 0]
CurOp(t) == cur[t]
CurVal(t) == cur[t].v
Goto(t, s) == pc' = [pc EXCEPT ![t] = s]
SetLoc(t, r) == loc' = [loc EXCEPT ![t] = r]
DirtyLen == Cardinality({k \in Keys : dirty[k] # 0})
\* finishing an op: record result into monitor, advance
Finish(t, rv, rok) ==
  /\ cfgs' = MonReturn(cfgs, t, rv, rok)
  /\ cur' = [cur EXCEPT ![t] = NoOp]
  /\ pc' = [pc EXCEPT ![t] = "idle"]
  /\ loc' = [loc EXCEPT ![t] = [L0 EXCEPT !.rv = rv, !.rok = rok]]
\* Store-like ops report (0,FALSE)
Ret(t, rv, rok) == LET o == CurOp(t) IN
  IF o.op \in {"Store", "Delete"} THEN Finish(t, 0, FALSE) ELSE Finish(t, rv, rok)
FinishRange(t, rep) ==
  /\ cfgs' = MonReturnRange(cfgs, t, rep)
  /\ cur' = [cur EXCEPT ![t] = NoOp]
  /\ pc' = [pc EXCEPT ![t] = "idle"]
  /\ loc' = [loc EXCEPT ![t] = [L0 EXCEPT !.rep = rep]]

\* ---------- op start ----------
Bound(t) == IF t = S0 THEN SetupLen ELSE NOps
Start(t, op, k, v) ==
  /\ pc[t] = "idle" /\ cnt[t] < Bound(t)
  /\ IF t = S0 THEN phase = "setup" ELSE phase = "run"
  /\ cur' = [cur EXCEPT ![t] = [op |-> op, k |-> k, v |-> v]]
  /\ cnt' = [cnt EXCEPT ![t] = @ + 1]
  /\ cfgs' = MonInvoke(cfgs, t, [op |-> op, k |-> k, v |-> v])
  /\ Goto(t, CASE op = "Load" -> "LD1" [] op = "Store" -> "ST1"
               [] op = "LoadOrStore" -> "LS1" [] op \in {"LoadAndDelete", "Delete"} -> "LA1" [] op = "Range" -> "RG1")
  /\ loc' = [loc EXCEPT ![t] = L0]
  /\ UNCHANGED <<readM, amended, dirty, dirtyNil, misses, mu, ep, nE, phase>>
MinKey == CHOOSE k \in Keys : \A j \in Keys : k <= j
StartAny(t) == \E op \in OpKinds, k \in Keys : (op = "Range" => k = MinKey) /\
                 Start(t, op, k, IF t = S0 THEN 100 + 10 * (cnt[t] + 1) + k ELSE ValOf(t, cnt[t] + 1))
EndSetup == /\ phase = "setup" /\ pc[S0] = "idle"
            /\ phase' = "run"
            /\ UNCHANGED <<readM, amended, dirty, dirtyNil, misses, mu, ep, nE, pc, loc, cur, cnt, cfgs>>

sh == <<readM, amended, dirty, dirtyNil, misses, mu, ep, nE>>
Nxt(t, s, r) == pc' = [pc EXCEPT ![t] = s] /\ loc' = [loc EXCEPT ![t] = r] /\ UNCHANGED <<cfgs, cur>>
K(t) == CurOp(t).k
At(t, s) == pc[t] = s
Fr == UNCHANGED <<cnt, phase>>
\* after an op finds entry e (or not) outside lock: continue per op kind
AfterLookup(t, e) ==
  IF e = 0 THEN Ret(t, 0, FALSE)
  ELSE Nxt(t, IF CurOp(t).op = "Load" THEN "LD5" ELSE "DE1", [loc[t] EXCEPT !.e = e])

\* ---- Load / LoadAndDelete fast path ----
LD1(t) == /\ (At(t, "LD1") \/ At(t, "LA1"))
          /\ LET e == readM[K(t)] IN
             IF e = 0 /\ amended THEN Nxt(t, IF At(t,"LD1") THEN "LD2" ELSE "LA2", loc[t])
             ELSE AfterLookup(t, e)
          /\ UNCHANGED sh /\ Fr
\* slow path under lock (Load: LD2, LoadAndDelete: LA2)
LD2(t) == /\ (At(t, "LD2") \/ At(t, "LA2")) /\ mu = 0
          /\ LET k == K(t)  del == At(t, "LA2") IN
             IF readM[k] = 0 /\ amended THEN
                LET e == dirty[k]
                    d2 == IF del THEN [dirty EXCEPT ![k] = 0] ELSE dirty
                    n2 == Cardinality({x \in Keys : d2[x] # 0}) IN
                /\ dirty' = d2
                /\ misses' = misses + 1
                /\ IF misses + 1 < n2
                   THEN /\ mu' = 0 /\ AfterLookup(t, e)
                   ELSE /\ mu' = t /\ Nxt(t, "ML", [loc[t] EXCEPT !.e = e, !.ctx = "LK"])
                /\ UNCHANGED <<readM, amended, dirtyNil, ep, nE>>
             ELSE /\ AfterLookup(t, readM[k]) /\ UNCHANGED sh
          /\ Fr
\* missLocked promotion: m.read.Store(readOnly{m: dirty}); dirty = nil; misses = 0; (caller unlocks)
ML(t) == /\ At(t, "ML")
         /\ readM' = dirty /\ amended' = FALSE /\ dirty' = NoKeys /\ dirtyNil' = TRUE /\ misses' = 0 /\ mu' = 0
         /\ UNCHANGED <<ep, nE>>
         /\ IF loc[t].ctx = "LK" THEN AfterLookup(t, loc[t].e) ELSE Ret(t, loc[t].rv, loc[t].rok)
         /\ Fr
LD5(t) == /\ At(t, "LD5") /\ CurOp(t).op # "Range"
          /\ LET p == ep[loc[t].e] IN IF p <= 0 THEN Ret(t, 0, FALSE) ELSE Ret(t, p, TRUE)
          /\ UNCHANGED sh /\ Fr
DE1(t) == /\ At(t, "DE1")
          /\ LET p == ep[loc[t].e] IN IF p <= 0 THEN Ret(t, 0, FALSE) ELSE Nxt(t, "DE2", [loc[t] EXCEPT !.p = p])
          /\ UNCHANGED sh /\ Fr
DE2(t) == /\ At(t, "DE2")
          /\ IF ep[loc[t].e] = loc[t].p
             THEN /\ ep' = [ep EXCEPT ![loc[t].e] = NilP] /\ Ret(t, loc[t].p, TRUE)
             ELSE /\ UNCHANGED ep /\ Nxt(t, "DE1", loc[t])
          /\ UNCHANGED <<readM, amended, dirty, dirtyNil, misses, mu, nE>> /\ Fr

IsLS(t) == CurOp(t).op = "LoadOrStore"
\* ---- Store / LoadOrStore fast path ----
ST1(t) == /\ (At(t, "ST1") \/ At(t, "LS1"))
          /\ LET e == readM[K(t)] IN
             IF e # 0 THEN Nxt(t, IF IsLS(t) THEN "TL1" ELSE "ST2", [loc[t] EXCEPT !.e = e, !.ctx = "fast"])
             ELSE Nxt(t, "SL", loc[t])
          /\ UNCHANGED sh /\ Fr
ST2(t) == /\ At(t, "ST2")
          /\ LET p == ep[loc[t].e] IN
             IF p = Exp THEN Nxt(t, "SL", loc[t]) ELSE Nxt(t, "ST3", [loc[t] EXCEPT !.p = p])
          /\ UNCHANGED sh /\ Fr
ST3(t) == /\ At(t, "ST3")
          /\ IF ep[loc[t].e] = loc[t].p
             THEN /\ ep' = [ep EXCEPT ![loc[t].e] = CurVal(t)] /\ Ret(t, 0, FALSE)
             ELSE /\ UNCHANGED ep /\ Nxt(t, "ST2", loc[t])
          /\ UNCHANGED <<readM, amended, dirty, dirtyNil, misses, mu, nE>> /\ Fr
\* insert brand-new entry into dirty, unlock, return (used when amended already)
\* ---- slow path: Lock ----
SL(t) == /\ At(t, "SL") /\ mu = 0
         /\ LET k == K(t) IN
            IF readM[k] # 0 THEN
               /\ mu' = t /\ UNCHANGED <<readM, amended, dirty, dirtyNil, misses, ep, nE>>
               /\ Nxt(t, "UX", [loc[t] EXCEPT !.e = readM[k], !.ctx = "lr"])
            ELSE IF dirty[k] # 0 THEN
               /\ mu' = t /\ UNCHANGED <<readM, amended, dirty, dirtyNil, misses, ep, nE>>
               /\ Nxt(t, IF IsLS(t) THEN "TL1" ELSE "ST7", [loc[t] EXCEPT !.e = dirty[k], !.ctx = "d"])
            ELSE IF amended THEN
               /\ nE < MaxE
               /\ nE' = nE + 1 /\ ep' = [ep EXCEPT ![nE + 1] = CurVal(t)]
               /\ dirty' = [dirty EXCEPT ![k] = nE + 1] /\ mu' = 0
               /\ UNCHANGED <<readM, amended, dirtyNil, misses>>
               /\ Ret(t, CurVal(t), FALSE)
            ELSE \* dirtyLocked
               LET rem == {x \in Keys : readM[x] # 0} IN
               /\ mu' = t /\ dirtyNil' = FALSE
               /\ dirty' = IF dirtyNil THEN NoKeys ELSE dirty
               /\ UNCHANGED <<readM, amended, misses, ep, nE>>
               /\ IF dirtyNil /\ rem # {} THEN Nxt(t, "DL1", [loc[t] EXCEPT !.rem = rem])
                  ELSE Nxt(t, "RS", loc[t])
         /\ Fr
DLDone(t, rem2, l2) == IF rem2 = {} THEN Nxt(t, "RS", [l2 EXCEPT !.rem = {}]) ELSE Nxt(t, "DL1", [l2 EXCEPT !.rem = rem2])
DL1(t) == /\ At(t, "DL1")
          /\ \E k2 \in loc[t].rem :
               LET e2 == readM[k2]  p == ep[e2] IN
               IF p = NilP THEN /\ Nxt(t, "DL2", [loc[t] EXCEPT !.dk = k2]) /\ UNCHANGED dirty
               ELSE /\ dirty' = IF p # Exp THEN [dirty EXCEPT ![k2] = e2] ELSE dirty
                    /\ DLDone(t, loc[t].rem \ {k2}, loc[t])
          /\ UNCHANGED <<readM, amended, dirtyNil, misses, mu, ep, nE>> /\ Fr
DL2(t) == /\ At(t, "DL2")
          /\ LET e2 == readM[loc[t].dk] IN
             IF ep[e2] = NilP
             THEN /\ ep' = [ep EXCEPT ![e2] = Exp] /\ DLDone(t, loc[t].rem \ {loc[t].dk}, loc[t])
             ELSE /\ UNCHANGED ep /\ Nxt(t, "DL3", loc[t])
          /\ UNCHANGED <<readM, amended, dirty, dirtyNil, misses, mu, nE>> /\ Fr
DL3(t) == /\ At(t, "DL3")
          /\ LET k2 == loc[t].dk  e2 == readM[k2]  p == ep[e2] IN
             IF p = NilP THEN /\ Nxt(t, "DL2", loc[t]) /\ UNCHANGED dirty
             ELSE /\ dirty' = IF p # Exp THEN [dirty EXCEPT ![k2] = e2] ELSE dirty
                  /\ DLDone(t, loc[t].rem \ {k2}, loc[t])
          /\ UNCHANGED <<readM, amended, dirtyNil, misses, mu, ep, nE>> /\ Fr
\* m.read.Store(amended: true); dirty[key] = newEntry(value); Unlock
RS(t) == /\ At(t, "RS") /\ nE < MaxE
         /\ amended' = TRUE
         /\ nE' = nE + 1 /\ ep' = [ep EXCEPT ![nE + 1] = CurVal(t)]
         /\ dirty' = [dirty EXCEPT ![K(t)] = nE + 1] /\ mu' = 0
         /\ UNCHANGED <<readM, dirtyNil, misses>>
         /\ Ret(t, CurVal(t), FALSE) /\ Fr
\* unexpungeLocked CAS
UX(t) == /\ At(t, "UX")
         /\ LET e == loc[t].e IN
            /\ IF ep[e] = Exp THEN ep' = [ep EXCEPT ![e] = NilP] /\ dirty' = [dirty EXCEPT ![K(t)] = e]
               ELSE UNCHANGED <<ep, dirty>>
            /\ Nxt(t, IF IsLS(t) THEN "TL1" ELSE "ST7", loc[t])
         /\ UNCHANGED <<readM, amended, dirtyNil, misses, mu, nE>> /\ Fr
\* storeLocked
ST7(t) == /\ At(t, "ST7")
          /\ ep' = [ep EXCEPT ![loc[t].e] = CurVal(t)] /\ mu' = 0
          /\ UNCHANGED <<readM, amended, dirty, dirtyNil, misses, nE>>
          /\ Ret(t, 0, FALSE) /\ Fr
\* tryLoadOrStore result handling by context; epn = new ep
TLRes(t, rv, rok) ==
  CASE loc[t].ctx = "fast" -> Ret(t, rv, rok) /\ UNCHANGED <<readM, amended, dirty, dirtyNil, misses, mu, nE>>
    [] loc[t].ctx = "lr" -> Ret(t, rv, rok) /\ mu' = 0 /\ UNCHANGED <<readM, amended, dirty, dirtyNil, misses, nE>>
    [] loc[t].ctx = "d" ->
         /\ misses' = misses + 1 /\ UNCHANGED <<readM, amended, dirty, dirtyNil, nE>>
         /\ IF misses + 1 < DirtyLen THEN mu' = 0 /\ Ret(t, rv, rok)
            ELSE mu' = t /\ Nxt(t, "ML", [loc[t] EXCEPT !.ctx = "LS", !.rv = rv, !.rok = rok])
TLFail(t) == \* entry expunged
  IF loc[t].ctx = "fast" THEN Nxt(t, "SL", loc[t]) /\ UNCHANGED <<readM, amended, dirty, dirtyNil, misses, mu, nE>>
  ELSE TLRes(t, 0, FALSE)
TL1(t) == /\ (At(t, "TL1") \/ At(t, "TL3"))
          /\ LET p == ep[loc[t].e] IN
             IF p = Exp THEN TLFail(t)
             ELSE IF p # NilP THEN TLRes(t, p, TRUE)
             ELSE Nxt(t, "TL2", loc[t]) /\ UNCHANGED <<readM, amended, dirty, dirtyNil, misses, mu, nE>>
          /\ UNCHANGED ep /\ Fr
TL2(t) == /\ At(t, "TL2")
          /\ IF ep[loc[t].e] = NilP
             THEN ep' = [ep EXCEPT ![loc[t].e] = CurVal(t)] /\ TLRes(t, CurVal(t), FALSE)
             ELSE UNCHANGED ep /\ Nxt(t, "TL3", loc[t]) /\ UNCHANGED <<readM, amended, dirty, dirtyNil, misses, mu, nE>>
          /\ Fr

\* ---- Range ----
\* start the per-entry loop over the snapshot rm (or return at once when it is empty)
RangeLoop(t, rm) == LET rem == {k \in Keys : rm[k] # 0} IN
  IF rem = {} THEN FinishRange(t, NoKeys) ELSE Nxt(t, "LD5", [loc[t] EXCEPT !.rm = rm, !.rem = rem, !.rep = NoKeys])
RG1(t) == /\ At(t, "RG1")
          /\ (IF amended THEN Nxt(t, "RG2", loc[t]) ELSE RangeLoop(t, readM))
          /\ UNCHANGED sh /\ Fr
\* Lock; re-read; if still amended promote dirty to read; Unlock   (one critical section, one visible store)
RG2(t) == /\ At(t, "RG2") /\ mu = 0
          /\ IF amended
             THEN /\ readM' = dirty /\ amended' = FALSE /\ dirty' = NoKeys /\ dirtyNil' = TRUE /\ misses' = 0
                  /\ UNCHANGED <<mu, ep, nE>> /\ RangeLoop(t, dirty)
             ELSE /\ UNCHANGED sh /\ RangeLoop(t, readM)
          /\ Fr
\* one iteration: e.load() of some remaining entry (Go's map iteration order is unspecified), then the callback.
\* The goroutine is parked at the hook inside entry.load(), i.e. at site LD5, with a Range call in progress.
RG3(t) == /\ At(t, "LD5") /\ CurOp(t).op = "Range"
          /\ \E k \in loc[t].rem :
               LET p == ep[loc[t].rm[k]]
                   rep2 == IF p > 0 THEN [loc[t].rep EXCEPT ![k] = p] ELSE loc[t].rep
                   rem2 == loc[t].rem \ {k} IN
               IF rem2 = {} THEN FinishRange(t, rep2) ELSE Nxt(t, "LD5", [loc[t] EXCEPT !.rem = rem2, !.rep = rep2])
          /\ UNCHANGED sh /\ Fr

Step(t) == StartAny(t) \/ LD1(t) \/ LD2(t) \/ ML(t) \/ LD5(t) \/ DE1(t) \/ DE2(t) \/ ST1(t) \/ ST2(t) \/ ST3(t)
           \/ SL(t) \/ DL1(t) \/ DL2(t) \/ DL3(t) \/ RS(t) \/ UX(t) \/ ST7(t) \/ TL1(t) \/ TL2(t)
           \/ RG1(t) \/ RG2(t) \/ RG3(t)
Next == EndSetup \/ \E t \in AllT : Step(t)
Init == /\ readM = NoKeys /\ amended = FALSE /\ dirty = NoKeys /\ dirtyNil = TRUE /\ misses = 0 /\ mu = 0
        /\ ep = [i \in 1..MaxE |-> NilP] /\ nE = 0
        /\ pc = [t \in AllT |-> "idle"] /\ loc = [t \in AllT |-> L0]
        /\ cur = [t \in AllT |-> NoOp] /\ cnt = [t \in AllT |-> 0]
        /\ cfgs = {[a |-> NoKeys, l |-> [t \in AllT |-> NoneLin]]}
        /\ phase = "setup"
Spec == Init /\ [][Next]_vars
Linearizable == cfgs # {}
\* structural invariants from the comments in map.go
ExpInv == \A k \in Keys : readM[k] # 0 /\ ep[readM[k]] = Exp => ~dirtyNil /\ dirty[k] # readM[k]
NilInv == \A k \in Keys : readM[k] # 0 /\ ep[readM[k]] = NilP /\ mu = 0 => dirtyNil \/ dirty[k] = readM[k]
LiveInv == \A k \in Keys : readM[k] # 0 /\ ep[readM[k]] > 0 /\ mu = 0 /\ ~dirtyNil => dirty[k] = readM[k]
AmendedInv == mu = 0 => (amended <=> \E k \in Keys : dirty[k] # 0 /\ readM[k] = 0) \/ (amended /\ ~dirtyNil)
LockInv == mu = 0 => \A t \in AllT : pc[t] \notin {"ML","DL1","DL2","DL3","RS","UX","ST7"}
\* spec growth: Range never holds mu while it calls back (so a callback may call back into the map without deadlock)
RangeCallbackUnlocked == \A t \in AllT : (pc[t] = "LD5" /\ cur[t].op = "Range") => mu # t
Done == \A t \in AllT : pc[t] = "idle"
\* Liveness: with every goroutine scheduled fairly the bounded programs always run to completion - no CAS retry loop or
\* lock hand-over can cycle for ever (a retry is caused by another goroutine's progress, of which there is a bounded amount)
LiveSpec == Spec /\ WF_vars(EndSetup) /\ \A t \in AllT : WF_vars(Step(t))
AllCallsReturn == \A t \in AllT : (pc[t] # "idle") ~> (pc[t] = "idle")
====
