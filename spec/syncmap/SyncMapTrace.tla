---- MODULE SyncMapTrace ----
(* Implementation-level trace validator (conformance): a fine trace recorded
   under the controlled scheduler -- one line per hook-to-hook step of the real
   sync2.Map, with the projected internal state after it -- must be a
   behaviour of SyncMap.tla, with the projection equal after EVERY step.
   Divergence here means the code no longer follows the modelled algorithm; it
   is reported, never by itself a violation. *)
EXTENDS SyncMap, TraceLib
CONSTANT Gate
VARIABLE l
tvars == <<vars, l>>
KeySeq == [i \in 1..Cardinality(Keys) |-> i]
ProjR(rm, pp) == [i \in 1..Len(KeySeq) |-> LET k == KeySeq[i] IN IF rm[k] = 0 THEN -9 ELSE pp[rm[k]]]
ProjD(rm, dd, pp) == [i \in 1..Len(KeySeq) |-> LET k == KeySeq[i] IN
            IF dd[k] = 0 THEN -9 ELSE IF dd[k] = rm[k] THEN -8 ELSE pp[dd[k]]]
\* the logged projection is the state AFTER the step: evaluated on the primed variables
MatchesNext(e) == /\ ProjR(readM', ep') = e.r /\ ProjD(readM', dirty', ep') = e.d /\ amended' = e.am /\ dirtyNil' = e.dn
                  /\ misses' = e.ms /\ mu' = e.mu
Ev == Trace[l]
IsEv(n) == l <= Len(Trace) /\ Trace[l].ev = n /\ l' = l + 1
RepFn(rep) == [k \in Keys |-> IF \E i \in 1..(Len(rep) \div 2) : rep[2 * i - 1] = k
                              THEN rep[2 * (CHOOSE i \in 1..(Len(rep) \div 2) : rep[2 * i - 1] = k)] ELSE 0]
TReset == /\ IsEv("reset")
          /\ readM' = NoKeys /\ amended' = FALSE /\ dirty' = NoKeys /\ dirtyNil' = TRUE /\ misses' = 0 /\ mu' = 0
          /\ ep' = [i \in 1..MaxE |-> NilP] /\ nE' = 0
          /\ pc' = [t \in AllT |-> "idle"] /\ loc' = [t \in AllT |-> L0]
          /\ cur' = [t \in AllT |-> NoOp] /\ cnt' = [t \in AllT |-> 0]
          /\ cfgs' = {[a |-> NoKeys, l |-> [t \in AllT |-> NoneLin]]}
          /\ phase' = "setup"
TInv == /\ IsEv("inv")
        /\ Start(Ev.t, Ev.op, Ev.k, Ev.v) /\ pc'[Ev.t] = Ev.to
TEnd == IsEv("endsetup") /\ EndSetup
TStep == /\ IsEv("step")
         /\ pc[Ev.t] = Ev.site
         /\ Step(Ev.t)
         /\ pc'[Ev.t] = Ev.to
         /\ (Ev.to = "idle" => IF cur[Ev.t].op = "Range" THEN loc'[Ev.t].rep = RepFn(Ev.rep)
                               ELSE loc'[Ev.t].rv = Ev.rv /\ loc'[Ev.t].rok = Ev.rok)
TNext == (TReset \/ TInv \/ TEnd \/ TStep) /\ MatchesNext(Ev)
TInit == Init /\ l = 1
TSpec == TInit /\ [][TNext]_tvars
Track == TrackL(l)
Accepted == AcceptedP
====
