---- MODULE LockstepAbsTrace ----
(* Abstract trace validator for C06.  The property IS "the fork is
   observationally identical to the standard library": the harness drives
   lists.List / lists.Ring and container/list / container/ring in lock step
   through parallel handle tables, and every line carries, for both, the
   return value (handle ids, 0 = nil, or the value) and the full observation
   (lengths, forward and backward traversals as handle ids and as values,
   Next/Prev of every handle; for rings Len, Do sequence, Next/Prev from every
   observed handle).  Deciding clause: they are equal at every step. *)
EXTENDS TraceLib
CONSTANT Gate
VARIABLES l
vars == <<l>>
Ev == Trace[l]
\* "both produce the same return values"
C_SameRet(e) == e.fret = e.gret
\* "... lengths, forward and backward traversals and element neighbours"
C_SameObs(e) == e.f = e.g
\* a panic (e.g. on a nil element) must be matched too
C_SamePanic(e) == (e.fpanic = "") = (e.gpanic = "")
All(e) == C_SameRet(e) /\ C_SameObs(e) /\ C_SamePanic(e)
TInit == l = 1
Step == l <= Len(Trace) /\ l' = l + 1 /\ (Gate \/ TRUE) /\ (Gate => (Ev.op = "Reset" \/ All(Ev)))
TSpec == TInit /\ [][Step]_vars
Obs == Trace[l - 1]
Chk == ~Gate /\ l > 1 /\ Obs.op # "Reset"
I_SameRet == Chk => C_SameRet(Obs)
I_SameObs == Chk => C_SameObs(Obs)
I_SamePanic == Chk => C_SamePanic(Obs)
Track == TrackL(l)
Accepted == AcceptedP
====
