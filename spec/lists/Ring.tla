---- MODULE Ring ----
(* Pointer-level model of lists.Ring (C06; forked from container/ring): nodes
   1..MaxN in creation order with next/prev pointers (0 = nil; a zero-value
   ring has nil links and is initialised lazily by Next/Prev/Move -- and hence
   by Link, Len and Do, which call them).  Next, Prev, Move, Link, Unlink and
   NewRing are transcribed statement by statement.  TLC checks that the links
   of the initialised nodes always form cycles (prev the inverse of next), that
   Link on one ring splits it and on two rings joins them, and enumerates every
   call with every pair of handles and every count as drivers. *)
EXTENDS Integers, Sequences, FiniteSets, TLC, Json
CONSTANTS MaxN, CNeg, CPos
Counts == (0 - CNeg)..CPos
VARIABLES s, last
vars == <<s, last>>
Nodes == 1..MaxN
S0 == [nxt |-> [n \in Nodes |-> 0], prv |-> [n \in Nodes |-> 0], n |-> 0]
InitR(t, r) == [t EXCEPT !.nxt[r] = r, !.prv[r] = r]
\* each returns <<state, result node>>
NextT(t, r) == IF t.nxt[r] = 0 THEN <<InitR(t, r), r>> ELSE <<t, t.nxt[r]>>
PrevT(t, r) == IF t.nxt[r] = 0 THEN <<InitR(t, r), r>> ELSE <<t, t.prv[r]>>
RECURSIVE Walk(_, _, _)
Walk(t, r, k) == IF k = 0 THEN r ELSE IF k < 0 THEN Walk(t, t.prv[r], k + 1) ELSE Walk(t, t.nxt[r], k - 1)
MoveT(t, r, k) == IF t.nxt[r] = 0 THEN <<InitR(t, r), r>> ELSE <<t, Walk(t, r, k)>>
LinkT(t, r, q) ==                     \* q = 0: nil argument
  LET a == NextT(t, r)  n == a[2] IN
  IF q = 0 THEN a ELSE
  LET b == PrevT(a[1], q)  p == b[2]
      t1 == [b[1] EXCEPT !.nxt[r] = q]
      t2 == [t1 EXCEPT !.prv[q] = r]
      t3 == [t2 EXCEPT !.prv[n] = p]
      t4 == [t3 EXCEPT !.nxt[p] = n]
  IN <<t4, n>>
UnlinkT(t, r, k) == IF k <= 0 THEN <<t, 0>> ELSE LET m == MoveT(t, r, k + 1) IN LinkT(m[1], r, m[2])
NewRingT(t, k) == LET f == t.n + 1 IN
  [t EXCEPT !.n = t.n + k,
            !.nxt = [x \in Nodes |-> IF x >= f /\ x < f + k THEN (IF x = f + k - 1 THEN f ELSE x + 1) ELSE t.nxt[x]],
            !.prv = [x \in Nodes |-> IF x >= f /\ x < f + k THEN (IF x = f THEN f + k - 1 ELSE x - 1) ELSE t.prv[x]]]
O(o, r, q, k, ret) == [op |-> o, r |-> r, q |-> q, k |-> k, ret |-> ret]
Init == s = S0 /\ last = O("Reset", 0, 0, 0, 0)
Live == 1..s.n
NewRing(k) == k >= 1 /\ s.n + k <= MaxN /\ s' = NewRingT(s, k) /\ last' = O("NewRing", 0, 0, k, s.n + 1)
Zero == s.n + 1 <= MaxN /\ s' = [s EXCEPT !.n = @ + 1] /\ last' = O("Zero", 0, 0, 0, s.n + 1)
Do1(o, r, res) == s' = res[1] /\ last' = [o EXCEPT !.ret = res[2]]
Next == \/ Zero \/ \E k \in 1..MaxN : NewRing(k)
        \/ \E r \in Live : \/ Do1(O("Next", r, 0, 0, 0), r, NextT(s, r)) \/ Do1(O("Prev", r, 0, 0, 0), r, PrevT(s, r))
                           \/ \E k \in Counts : Do1(O("Move", r, 0, k, 0), r, MoveT(s, r, k)) \/ Do1(O("Unlink", r, 0, k, 0), r, UnlinkT(s, r, k))
                           \/ \E q \in Live \cup {0} : Do1(O("Link", r, q, 0, 0), r, LinkT(s, r, q))
Spec == Init /\ [][Next]_vars
Inited == {x \in Live : s.nxt[x] # 0}
\* the initialised nodes' links are a permutation and prev is its inverse: every node lies on exactly one cycle
WellFormed == /\ \A x \in Inited : s.nxt[x] \in Inited /\ s.prv[x] \in Inited /\ s.prv[s.nxt[x]] = x /\ s.nxt[s.prv[x]] = x
              /\ \A x \in Live \ Inited : s.prv[x] = 0
RECURSIVE Cyc(_, _, _, _)
Cyc(t, r, x, acc) == IF x = r /\ acc # {} THEN acc ELSE Cyc(t, r, t.nxt[x], acc \cup {x})
Ring(t, r) == Cyc(t, r, r, {})
\* Link(r, q): q on r's ring => the ring is split (what is returned and what stays partition it); else the two rings are joined
LinkSplitsOrJoins == [][
  (last'.op = "Link" /\ last'.q # 0 /\ s.nxt[last'.r] # 0 /\ s.nxt[last'.q] # 0) =>
     LET r == last'.r  q == last'.q IN
     IF q \in Ring(s, r) THEN Ring(s', r) \cup Ring(s', last'.ret) = Ring(s, r)
     ELSE Ring(s', r) = Ring(s, r) \cup Ring(s, q)
  ]_vars
View == s
DoSeq(t, r) == LET RECURSIVE W(_, _) W(x, k) == IF (x = r /\ k > 0) \/ k > MaxN THEN <<>> ELSE <<x>> \o W(t.nxt[x], k + 1) IN W(r, 0)
LogEdge == PrintT(<<"E", ToJson([f |-> <<s.nxt, s.prv, s.n>>, t |-> <<s'.nxt, s'.prv, s'.n>>,
             op |-> last' @@ [obs |-> [x \in 1..s'.n |-> s'.nxt[x] # 0], x |-> [x \in 1..s'.n |-> IF s'.nxt[x] # 0 THEN DoSeq(s', x) ELSE <<>>]]])>>)
====
