---- MODULE LinkedList ----
(* Pointer-level model of lists.List / lists.Element (C06; the same algorithm
   as container/list, from which it is forked): two lists, each a ring through
   its sentinel root element; elements carry next, prev, list, Value; zero-value
   lists are initialised lazily.  Every public mutator is transcribed statement
   by statement (insert / remove / move pointer updates in source order).
   Element handles are 1..MaxE in creation order; node -l is the sentinel of
   list l; 0 is nil.  The state is one record s so that statements compose.
   seqs is the abstract view (each list a sequence of element ids); TLC checks
   well-formedness and that the pointer structure refines it, for every call
   with every combination of handles: live in this list, live in the other
   list, already removed, the element as its own mark, a list pushed onto
   itself. *)
EXTENDS Integers, Sequences, FiniteSets, TLC, Json
CONSTANTS MaxE
VARIABLES s, seqs, last
vars == <<s, seqs, last>>
Lists == {1, 2}
Elems == 1..MaxE
Sent(l) == 0 - l
Nodes == Elems \cup {Sent(l) : l \in Lists}
S0 == [nxt |-> [n \in Nodes |-> 0], prv |-> [n \in Nodes |-> 0], lst |-> [e \in Elems |-> 0], val |-> [e \in Elems |-> 0],
       len |-> [l \in Lists |-> 0], nE |-> 0]
\* ---- transcription ----
InitL(t, l) == [t EXCEPT !.nxt[Sent(l)] = Sent(l), !.prv[Sent(l)] = Sent(l), !.len[l] = 0]
Lazy(t, l) == IF t.nxt[Sent(l)] = 0 THEN InitL(t, l) ELSE t
InsertE(t, e, at, l) ==                                   \* insert(e, at)
  LET t1 == [t EXCEPT !.prv[e] = at, !.nxt[e] = t.nxt[at]]
      t2 == [t1 EXCEPT !.nxt[t1.prv[e]] = e]
      t3 == [t2 EXCEPT !.prv[t2.nxt[e]] = e]
  IN [t3 EXCEPT !.lst[e] = l, !.len[l] = @ + 1]
InsertV(t, v, at, l) == LET e == t.nE + 1 IN InsertE([t EXCEPT !.nE = e, !.val[e] = v], e, at, l)   \* insertValue
RemoveE(t, e, l) ==                                       \* remove(e)
  LET t1 == [t EXCEPT !.nxt[t.prv[e]] = t.nxt[e]]
      t2 == [t1 EXCEPT !.prv[t1.nxt[e]] = t1.prv[e]]
  IN [t2 EXCEPT !.nxt[e] = 0, !.prv[e] = 0, !.lst[e] = 0, !.len[l] = @ - 1]
MoveE(t, e, at) ==                                        \* move(e, at)
  IF e = at THEN t ELSE
  LET t1 == [t EXCEPT !.nxt[t.prv[e]] = t.nxt[e]]
      t2 == [t1 EXCEPT !.prv[t1.nxt[e]] = t1.prv[e]]
      t3 == [t2 EXCEPT !.prv[e] = at, !.nxt[e] = t2.nxt[at]]
      t4 == [t3 EXCEPT !.nxt[t3.prv[e]] = e]
  IN [t4 EXCEPT !.prv[t4.nxt[e]] = e]
FrontOf(t, l) == IF t.len[l] = 0 THEN 0 ELSE t.nxt[Sent(l)]
BackOf(t, l) == IF t.len[l] = 0 THEN 0 ELSE t.prv[Sent(l)]
NextOf(t, e) == IF e = 0 THEN 0 ELSE LET p == t.nxt[e] IN IF t.lst[e] # 0 /\ p # Sent(t.lst[e]) THEN p ELSE 0
PrevOf(t, e) == IF e = 0 THEN 0 ELSE LET p == t.prv[e] IN IF t.lst[e] # 0 /\ p # Sent(t.lst[e]) THEN p ELSE 0
\* for i, e := other.Len(), other.Front(); i > 0; i, e = i-1, e.Next() { l.insertValue(e.Value, l.root.prev) }
RECURSIVE PBLoop(_, _, _, _)
PBLoop(t, l, i, e) == IF i <= 0 THEN t ELSE LET t1 == InsertV(t, t.val[e], t.prv[Sent(l)], l) IN PBLoop(t1, l, i - 1, NextOf(t1, e))
RECURSIVE PFLoop(_, _, _, _)
PFLoop(t, l, i, e) == IF i <= 0 THEN t ELSE LET t1 == InsertV(t, t.val[e], Sent(l), l) IN PFLoop(t1, l, i - 1, PrevOf(t1, e))
\* ---- abstract updates on sequences of element ids ----
Without(q, e) == SelectSeq(q, LAMBDA x : x # e)
Pos(q, e) == CHOOSE i \in 1..Len(q) : q[i] = e
InsAt(q, i, e) == SubSeq(q, 1, i) \o <<e>> \o SubSeq(q, i + 1, Len(q))
In(q, e) == \E i \in 1..Len(q) : q[i] = e
O(o, l, e, m, r) == [op |-> o, l |-> l, e |-> e, m |-> m, ret |-> r]
Init == s = S0 /\ seqs = [l \in Lists |-> <<>>] /\ last = O("Reset", 0, 0, 0, 0)
Room(n) == s.nE + n <= MaxE
Live == 1..s.nE
PushFront(l) ==
  /\ Room(1)
  /\ LET e == s.nE + 1 IN
     /\ s' = InsertV(Lazy(s, l), 10 + e, Sent(l), l) /\ seqs' = [seqs EXCEPT ![l] = <<e>> \o @] /\ last' = O("PushFront", l, 0, 0, e)
PushBack(l) ==
  /\ Room(1)
  /\ LET e == s.nE + 1  t == Lazy(s, l) IN
     /\ s' = InsertV(t, 10 + e, t.prv[Sent(l)], l) /\ seqs' = [seqs EXCEPT ![l] = Append(@, e)] /\ last' = O("PushBack", l, 0, 0, e)
InsertBefore(l, m) ==
  /\ Room(1) /\ m \in Live
  /\ LET e == s.nE + 1 IN
     IF s.lst[m] # l THEN UNCHANGED <<s, seqs>> /\ last' = O("InsertBefore", l, 0, m, 0)
     ELSE /\ s' = InsertV(s, 10 + e, s.prv[m], l) /\ seqs' = [seqs EXCEPT ![l] = InsAt(@, Pos(@, m) - 1, e)]
          /\ last' = O("InsertBefore", l, 0, m, e)
InsertAfter(l, m) ==
  /\ Room(1) /\ m \in Live
  /\ LET e == s.nE + 1 IN
     IF s.lst[m] # l THEN UNCHANGED <<s, seqs>> /\ last' = O("InsertAfter", l, 0, m, 0)
     ELSE /\ s' = InsertV(s, 10 + e, m, l) /\ seqs' = [seqs EXCEPT ![l] = InsAt(@, Pos(@, m), e)]
          /\ last' = O("InsertAfter", l, 0, m, e)
Remove(l, e) == /\ e \in Live /\ last' = O("Remove", l, e, 0, s.val[e])
                /\ IF s.lst[e] = l THEN s' = RemoveE(s, e, l) /\ seqs' = [seqs EXCEPT ![l] = Without(@, e)] ELSE UNCHANGED <<s, seqs>>
MoveToFront(l, e) == /\ e \in Live /\ last' = O("MoveToFront", l, e, 0, 0)
                     /\ IF s.lst[e] # l \/ s.nxt[Sent(l)] = e THEN UNCHANGED <<s, seqs>>
                        ELSE s' = MoveE(s, e, Sent(l)) /\ seqs' = [seqs EXCEPT ![l] = <<e>> \o Without(@, e)]
MoveToBack(l, e) == /\ e \in Live /\ last' = O("MoveToBack", l, e, 0, 0)
                    /\ IF s.lst[e] # l \/ s.prv[Sent(l)] = e THEN UNCHANGED <<s, seqs>>
                       ELSE s' = MoveE(s, e, s.prv[Sent(l)]) /\ seqs' = [seqs EXCEPT ![l] = Append(Without(@, e), e)]
MoveBefore(l, e, m) == /\ e \in Live /\ m \in Live /\ last' = O("MoveBefore", l, e, m, 0)
                       /\ IF s.lst[e] # l \/ e = m \/ s.lst[m] # l THEN UNCHANGED <<s, seqs>>
                          ELSE s' = MoveE(s, e, s.prv[m]) /\ seqs' = [seqs EXCEPT ![l] = LET w == Without(@, e) IN InsAt(w, Pos(w, m) - 1, e)]
MoveAfter(l, e, m) == /\ e \in Live /\ m \in Live /\ last' = O("MoveAfter", l, e, m, 0)
                      /\ IF s.lst[e] # l \/ e = m \/ s.lst[m] # l THEN UNCHANGED <<s, seqs>>
                         ELSE s' = MoveE(s, e, m) /\ seqs' = [seqs EXCEPT ![l] = LET w == Without(@, e) IN InsAt(w, Pos(w, m), e)]
NewIds(n) == [i \in 1..n |-> s.nE + i]
PushBackList(l, o) == /\ Room(s.len[o]) /\ last' = O("PushBackList", l, 0, o, 0)
                      /\ LET t == Lazy(s, l) IN s' = PBLoop(t, l, t.len[o], FrontOf(t, o))
                      /\ seqs' = [seqs EXCEPT ![l] = @ \o NewIds(s.len[o])]
PushFrontList(l, o) == /\ Room(s.len[o]) /\ last' = O("PushFrontList", l, 0, o, 0)
                       /\ LET t == Lazy(s, l) IN s' = PFLoop(t, l, t.len[o], BackOf(t, o))
                       /\ seqs' = [seqs EXCEPT ![l] = LET n == s.len[o] IN [i \in 1..n |-> s.nE + n + 1 - i] \o @]
InitEmpty(l) == /\ s.len[l] = 0 /\ s' = InitL(s, l) /\ UNCHANGED seqs /\ last' = O("Init", l, 0, 0, 0)
Next == \E l \in Lists : \/ PushFront(l) \/ PushBack(l) \/ InitEmpty(l)
                         \/ \E o \in Lists : PushBackList(l, o) \/ PushFrontList(l, o)
                         \/ \E e \in Elems : \/ InsertBefore(l, e) \/ InsertAfter(l, e) \/ Remove(l, e) \/ MoveToFront(l, e) \/ MoveToBack(l, e)
                                             \/ \E m \in Elems : MoveBefore(l, e, m) \/ MoveAfter(l, e, m)
Spec == Init /\ [][Next]_vars
\* ---- properties on the model ----
RECURSIVE Walk(_, _, _)
Walk(l, n, k) == IF n = Sent(l) \/ n = 0 \/ k > MaxE THEN <<>> ELSE <<n>> \o Walk(l, s.nxt[n], k + 1)
Refines == \A l \in Lists : Walk(l, s.nxt[Sent(l)], 0) = seqs[l] /\ s.len[l] = Len(seqs[l])
WellFormed == /\ \A l \in Lists : s.nxt[Sent(l)] # 0 => (s.prv[s.nxt[Sent(l)]] = Sent(l) /\ s.nxt[s.prv[Sent(l)]] = Sent(l))
              /\ \A e \in 1..s.nE : IF s.lst[e] = 0 THEN s.nxt[e] = 0 /\ s.prv[e] = 0
                                    ELSE s.prv[s.nxt[e]] = e /\ s.nxt[s.prv[e]] = e /\ In(seqs[s.lst[e]], e)
              /\ \A e \in 1..s.nE : Cardinality({l \in Lists : In(seqs[l], e)}) <= 1
View == <<s, seqs>>
LogEdge == PrintT(<<"E", ToJson([f |-> <<s.nxt, s.prv, s.lst, s.nE, s.val>>, t |-> <<s'.nxt, s'.prv, s'.lst, s'.nE, s'.val>>,
                                  op |-> last' @@ [x |-> <<seqs'[1], seqs'[2]>>]])>>)
====
