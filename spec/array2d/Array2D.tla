---- MODULE Array2D ----
(* Implementation-level model of arrays.Array2D (C08): a backing slice `sl` of
   width*height values addressed through the index function Idx (row-major,
   stride = width: the intended algorithm), rows and spans as sub-slices of the
   backing slice (a window is the list of backing positions it covers), Fill as
   "fill the first row of the rectangle, then copy it down", Clone as a copy
   of the backing slice.  The abstract grid `g` (sequence of rows) is carried
   along and TLC checks that the backing slice refines it for every shape --
   i.e. that Idx is injective and in range for rectangular shapes too.
   The operations are content-oblivious, so calls from the all-distinct grid
   (cell (x,y) = 1+x+y*w) exercise every cell relation; a second/third call is
   explored only where it can matter (after taking a window or a clone). *)
EXTENDS Integers, Sequences, FiniteSets, TLC, Json
CONSTANTS MaxW, MaxH
VARIABLES kind, w, h, sl, g, win, cl, cg, steps, last
vars == <<kind, w, h, sl, g, win, cl, cg, steps, last>>
Idx(x, y) == x + y * w + 1                       \* 1-based position in sl of cell (x,y)
InX(x) == x >= 0 /\ x < w
InY(y) == y >= 0 /\ y < h
Min(a, b) == IF a < b THEN a ELSE b
Max(a, b) == IF a > b THEN a ELSE b
GridOf(ww, hh, F(_, _)) == [y \in 1..hh |-> [x \in 1..ww |-> F(x - 1, y - 1)]]
O0 == [op |-> "Reset", w |-> 0, h |-> 0, x1 |-> 0, y1 |-> 0, x2 |-> 0, y2 |-> 0, v |-> 0, lens |-> <<>>, ret |-> 0, pan |-> FALSE]
Init == /\ kind = "void" /\ w = 0 /\ h = 0 /\ sl = <<>> /\ g = <<>> /\ win = <<>> /\ cl = <<>> /\ cg = <<>>
        /\ steps = 0 /\ last = O0
Fresh(k, ww, hh, s2, g2, o) == /\ kind = "void" /\ kind' = k /\ w' = ww /\ h' = hh /\ sl' = s2 /\ g' = g2
                               /\ win' = <<>> /\ cl' = <<>> /\ cg' = <<>> /\ steps' = 0 /\ last' = o
\* New2D + one Set per cell with a unique id
New(ww, hh) == LET F(x, y) == 1 + x + y * ww IN
   Fresh("grid", ww, hh, [i \in 1..ww * hh |-> i], GridOf(ww, hh, F), [O0 EXCEPT !.op = "New", !.w = ww, !.h = hh])
NewFilled(ww, hh) == LET F(x, y) == 9 IN
   Fresh("done", ww, hh, [i \in 1..ww * hh |-> 9], GridOf(ww, hh, F), [O0 EXCEPT !.op = "NewFilled", !.w = ww, !.h = hh, !.v = 9])
\* jagged[y][x] = 100 + 10*y + x, row y has lens[y+1] values
NewJagged(ww, hh, lens) ==
   LET F(x, y) == IF y < Len(lens) /\ x < lens[y + 1] THEN 100 + 10 * y + x ELSE 0 IN
   Fresh("done", ww, hh,
         [i \in 1..ww * hh |-> LET x == (i - 1) % ww  y == (i - 1) \div ww IN F(x, y)],  \* copy(arr.Row(y), row) for rows inside
         GridOf(ww, hh, F), [O0 EXCEPT !.op = "NewJagged", !.w = ww, !.h = hh, !.lens = lens])
\* ---- calls on an existing grid ----
MayCall == kind = "grid" /\ (steps = 0 \/ (steps < 3 /\ (win # <<>> \/ cl # <<>>)))
Done(o) == /\ UNCHANGED <<kind, w, h>> /\ steps' = steps + 1 /\ last' = o
Panic(o) == UNCHANGED <<sl, g, win, cl, cg>> /\ Done([o EXCEPT !.pan = TRUE])
Set(x, y) == LET o == [O0 EXCEPT !.op = "Set", !.x1 = x, !.y1 = y, !.v = 50 + steps] IN
   /\ MayCall /\ (steps > 0 => InX(x) /\ InY(y))
   /\ IF InX(x) /\ InY(y)
      THEN /\ sl' = [sl EXCEPT ![Idx(x, y)] = o.v] /\ g' = [g EXCEPT ![y + 1][x + 1] = o.v]
           /\ UNCHANGED <<win, cl, cg>> /\ Done(o)
      ELSE Panic(o)
Get(x, y) == LET o == [O0 EXCEPT !.op = "Get", !.x1 = x, !.y1 = y] IN
   /\ MayCall /\ steps = 0
   /\ IF InX(x) /\ InY(y) THEN UNCHANGED <<sl, g, win, cl, cg>> /\ Done([o EXCEPT !.ret = sl[Idx(x, y)]]) ELSE Panic(o)
\* a.slice[x1+y*w : 1+x2+y*w]  -> backing positions
Span(x1, x2, y) == [i \in 1..(x2 - x1 + 1) |-> Idx(x1, y) + i - 1]
Row(y) == LET o == [O0 EXCEPT !.op = "Row", !.y1 = y] IN
   /\ MayCall /\ steps = 0
   /\ IF InY(y) THEN win' = Span(0, w - 1, y) /\ UNCHANGED <<sl, g, cl, cg>> /\ Done(o) ELSE Panic(o)
RowSpan(x1, x2, y) == LET o == [O0 EXCEPT !.op = "RowSpan", !.x1 = x1, !.x2 = x2, !.y1 = y] IN
   /\ MayCall /\ steps = 0
   /\ ~(InX(x1) /\ InX(x2) /\ InY(y) /\ x1 > x2)        \* x1 > x2 in range: outside the property
   /\ IF InX(x1) /\ InX(x2) /\ InY(y) THEN win' = Span(x1, x2, y) /\ UNCHANGED <<sl, g, cl, cg>> /\ Done(o) ELSE Panic(o)
\* write through the held window: r[i] = v
CoordOf(p) == <<(p - 1) % w, (p - 1) \div w>>
WinSet(i) == LET o == [O0 EXCEPT !.op = "WinSet", !.x1 = i, !.v = 70 + steps]  c == CoordOf(win[i + 1]) IN
   /\ MayCall /\ i >= 0 /\ i < Len(win)
   /\ sl' = [sl EXCEPT ![win[i + 1]] = o.v] /\ g' = [g EXCEPT ![c[2] + 1][c[1] + 1] = o.v]
   /\ UNCHANGED <<win, cl, cg>> /\ Done(o)
Fill(x1, y1, x2, y2) == LET o == [O0 EXCEPT !.op = "Fill", !.x1 = x1, !.y1 = y1, !.x2 = x2, !.y2 = y2, !.v = 60 + steps] IN
   /\ MayCall /\ steps = 0
   /\ IF InX(x1) /\ InX(x2) /\ InY(y1) /\ InY(y2)
      THEN LET xa == Min(x1, x2) xb == Max(x1, x2) ya == Min(y1, y2) yb == Max(y1, y2)
               first == [sl EXCEPT ![Idx(xa, ya)] = o.v]  \* slices.Fill(firstRow, v): doubling copy, modelled in Splice.tla
           IN /\ sl' = [p \in 1..Len(sl) |-> LET c == CoordOf(p) IN
                          IF c[1] >= xa /\ c[1] <= xb /\ c[2] >= ya /\ c[2] <= yb THEN o.v ELSE sl[p]]
              /\ g' = [y \in 1..h |-> [x \in 1..w |-> IF x - 1 >= xa /\ x - 1 <= xb /\ y - 1 >= ya /\ y - 1 <= yb THEN o.v ELSE g[y][x]]]
              /\ UNCHANGED <<win, cl, cg>> /\ Done(o)
      ELSE Panic(o)
Clone == /\ MayCall /\ steps = 0 /\ cl' = <<sl>> /\ cg' = <<g>> /\ UNCHANGED <<sl, g, win>> /\ Done([O0 EXCEPT !.op = "Clone"])
SetB(x, y) == LET o == [O0 EXCEPT !.op = "SetB", !.x1 = x, !.y1 = y, !.v = 80 + steps] IN
   /\ MayCall /\ cl # <<>> /\ InX(x) /\ InY(y)
   /\ cl' = <<[cl[1] EXCEPT ![Idx(x, y)] = o.v]>> /\ cg' = <<[cg[1] EXCEPT ![y + 1][x + 1] = o.v]>>
   /\ UNCHANGED <<sl, g, win>> /\ Done(o)
JagLens(ww, hh) == UNION {[1..r -> 0..ww + 1] : r \in 0..hh + 1}
Next == \/ \E ww \in 0..MaxW, hh \in 0..MaxH : New(ww, hh) \/ NewFilled(ww, hh) \/ \E ls \in JagLens(ww, hh) : NewJagged(ww, hh, ls)
        \/ \E x \in -1..w, y \in -1..h : Set(x, y) \/ Get(x, y) \/ SetB(x, y)
        \/ \E y \in -1..h : Row(y) \/ \E x1, x2 \in -1..w : RowSpan(x1, x2, y)
        \/ \E x1, x2 \in -1..w, y1, y2 \in -1..h : Fill(x1, y1, x2, y2)
        \/ \E i \in 0..MaxW : WinSet(i)
        \/ Clone
Spec == Init /\ [][Next]_vars
\* ---- the property on the model: the backing slice refines the grid of independent cells ----
Refines == /\ Len(sl) = w * h /\ Len(g) = h
           /\ \A y \in 0..h - 1 : Len(g[y + 1]) = w /\ \A x \in 0..w - 1 : sl[Idx(x, y)] = g[y + 1][x + 1]
           /\ (cl # <<>> => \A y \in 0..h - 1 : \A x \in 0..w - 1 : cl[1][Idx(x, y)] = cg[1][y + 1][x + 1])
IdxInjective == \A x1, x2 \in 0..w - 1, y1, y2 \in 0..h - 1 : Idx(x1, y1) = Idx(x2, y2) => x1 = x2 /\ y1 = y2
WinInRow == \A i \in 1..Len(win) : win[i] \in 1..Len(sl) /\ CoordOf(win[i])[2] = CoordOf(win[1])[2]
View == <<kind, w, h, sl, win, cl, steps>>
WinVals(s, wn) == [i \in 1..Len(wn) |-> s[wn[i]]]
LogEdge == PrintT(<<"E", ToJson([f |-> <<kind, w, h, sl, win, cl, steps>>, t |-> <<kind', w', h', sl', win', cl', steps'>>,
                                  op |-> [last' EXCEPT !.ret = last'.ret] @@ [x |-> g']])>>)
====
