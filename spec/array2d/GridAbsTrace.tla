---- MODULE GridAbsTrace ----
(* Abstract trace validator for C08: an Array2D is width x height independent
   cells.  g = sequence of h rows of w values; wc = the cells (coordinates)
   covered by the window the caller currently holds; cg = the clone's grid. *)
EXTENDS TraceLib, FiniteSets
CONSTANT Gate
VARIABLES w, h, g, wc, cg, l
vars == <<w, h, g, wc, cg, l>>
Ev == Trace[l]
InX(x) == x >= 0 /\ x < w
InY(y) == y >= 0 /\ y < h
Min(a, b) == IF a < b THEN a ELSE b
Max(a, b) == IF a > b THEN a ELSE b
Grid(ww, hh, F(_, _)) == [y \in 1..hh |-> [x \in 1..ww |-> F(x - 1, y - 1)]]
SetG(gr, x, y, v) == [gr EXCEPT ![y + 1][x + 1] = v]
\* does the call have all its coordinates inside the bounds?
Inside(e) == CASE e.op \in {"Set", "Get"} -> InX(e.x1) /\ InY(e.y1)
               [] e.op = "Row" -> InY(e.y1)
               [] e.op = "RowSpan" -> InX(e.x1) /\ InX(e.x2) /\ InY(e.y1)
               [] e.op = "Fill" -> InX(e.x1) /\ InX(e.x2) /\ InY(e.y1) /\ InY(e.y2)
               [] OTHER -> TRUE
\* grid after the call, by the cell model
AfterG(e) ==
  CASE e.op = "New" -> LET F(x, y) == 1 + x + y * e.w IN Grid(e.w, e.h, F)
    [] e.op = "NewFilled" -> LET F(x, y) == e.v IN Grid(e.w, e.h, F)
    [] e.op = "NewJagged" -> LET F(x, y) == IF y < Len(e.lens) /\ x < e.lens[y + 1] THEN 100 + 10 * y + x ELSE 0 IN Grid(e.w, e.h, F)
    [] e.op = "Set" /\ Inside(e) -> SetG(g, e.x1, e.y1, e.v)
    [] e.op = "WinSet" -> SetG(g, wc[e.x1 + 1][1], wc[e.x1 + 1][2], e.v)
    [] e.op = "Fill" /\ Inside(e) ->
         LET xa == Min(e.x1, e.x2) xb == Max(e.x1, e.x2) ya == Min(e.y1, e.y2) yb == Max(e.y1, e.y2) IN
         [y \in 1..h |-> [x \in 1..w |-> IF x - 1 >= xa /\ x - 1 <= xb /\ y - 1 >= ya /\ y - 1 <= yb THEN e.v ELSE g[y][x]]]
    [] OTHER -> g
AfterW(e) == CASE e.op \in {"New", "NewFilled", "NewJagged"} -> <<>>
               [] e.op = "Row" /\ Inside(e) -> [i \in 1..w |-> <<i - 1, e.y1>>]
               [] e.op = "RowSpan" /\ Inside(e) -> [i \in 1..(e.x2 - e.x1 + 1) |-> <<e.x1 + i - 1, e.y1>>]
               [] OTHER -> wc
AfterC(e) == CASE e.op \in {"New", "NewFilled", "NewJagged"} -> <<>>
               [] e.op = "Clone" -> <<g>>
               [] e.op = "SetB" -> <<SetG(cg[1], e.x1, e.y1, e.v)>>
               [] OTHER -> cg
IsNew(e) == e.op \in {"New", "NewFilled", "NewJagged"}
RECURSIVE Join(_)
Join(q) == IF q = <<>> THEN "" ELSE IF Len(q) = 1 THEN q[1] ELSE q[1] \o " " \o Join(Tail(q))
\* how one cell prints: ints as numbers; for the string-typed arrays the driver stores "" for 0 and "s<v>" otherwise
Cell(ty, v) == CASE ty = "string" -> (IF v = 0 THEN "" ELSE "s" \o ToString(v))
                 [] ty = "float" -> (IF v = -1000 THEN "-0" ELSE ToString(v))          \* -1000 stands for negative zero
                 [] ty = "ptr" -> (IF v = 0 THEN "<nil>" ELSE "&{" \o ToString(v) \o " " \o ToString(v + 1) \o "}")
                 [] ty = "slice" -> (IF v = 0 THEN "[]" ELSE "[" \o ToString(v) \o "]")   \* []int{v}, nil for 0
                 [] OTHER -> ToString(v)
RowStr(ty, r) == "[" \o Join([i \in 1..Len(r) |-> Cell(ty, r[i])]) \o "]"
GridStr(ty, gr) == "[" \o Join([i \in 1..Len(gr) |-> RowStr(ty, gr[i])]) \o "]"
\* "Set(x,y,v) changes cell (x,y) and no other, Get returns the last value stored there" / Fill / New2DFilled / New2DFromJagged
C_Grid(g2, e) == e.grid = g2
\* "any coordinate outside the bounds panics without altering the array"; nothing else panics
C_Panic(e) == IF Inside(e) THEN e.panic = "" ELSE e.panic # ""
C_Get(e) == (e.op = "Get" /\ Inside(e)) => e.ret = g[e.y1 + 1][e.x1 + 1]
\* "Row(y) and RowSpan(x1,x2,y) with x1 <= x2 are live windows onto exactly those cells of that row"
C_Window(g2, w2, e) == e.win = [i \in 1..Len(w2) |-> g2[w2[i][2] + 1][w2[i][1] + 1]]
\* "Clone is independent of the original"
C_Clone(c2, e) == IF c2 = <<>> THEN e.cgrid = <<>> ELSE e.cgrid = c2[1]
C_Dims(ww, hh, e) == e.width = ww /\ e.height = hh
C_String(g2, e) == e.str = GridStr(e.ty, g2)
TInit == w = 0 /\ h = 0 /\ g = <<>> /\ wc = <<>> /\ cg = <<>> /\ l = 1
Reset == /\ l <= Len(Trace) /\ Ev.op = "Reset" /\ l' = l + 1 /\ w' = 0 /\ h' = 0 /\ g' = <<>> /\ wc' = <<>> /\ cg' = <<>>
Step == /\ l <= Len(Trace) /\ Ev.op # "Reset" /\ l' = l + 1
        /\ w' = IF IsNew(Ev) THEN Ev.w ELSE w
        /\ h' = IF IsNew(Ev) THEN Ev.h ELSE h
        /\ g' = AfterG(Ev) /\ wc' = AfterW(Ev) /\ cg' = AfterC(Ev)
        /\ (Gate => /\ C_Grid(g', Ev) /\ C_Panic(Ev) /\ C_Get(Ev) /\ C_Window(g', wc', Ev) /\ C_Clone(cg', Ev)
                    /\ C_Dims(w', h', Ev) /\ C_String(g', Ev))
TSpec == TInit /\ [][Reset \/ Step]_vars
Track == TrackL(l)
Accepted == AcceptedP
\* diagnostic mode (Gate = FALSE): the clauses as invariants over the last consumed line.
\* C_Panic and C_Get refer to the state before the call, so they are evaluated with a history copy.
Obs == Trace[l - 1]
Chk == ~Gate /\ l > 1 /\ Obs.op # "Reset"
I_Grid == Chk => C_Grid(g, Obs)
I_Window == Chk => C_Window(g, wc, Obs)
I_Clone == Chk => C_Clone(cg, Obs)
I_Dims == Chk => C_Dims(w, h, Obs)
I_String == Chk => C_String(g, Obs)
I_Panic == Chk => (IF IsNew(Obs) THEN Obs.panic = "" ELSE C_Panic(Obs))
====
