---- MODULE AVLAbsTrace ----
(* Abstract trace validator for C01 and C02.  Abstract state: the multiset of
   values in the tree (bag, with its size n) and in its clone (bag2, n2).
   Every clause quotes the property statements.  Prop selects which property's
   clauses decide acceptance.  Lines with full = FALSE carry no traversals
   (long generated histories log them only at checkpoints). *)
EXTENDS TraceLib, FiniteSets
CONSTANTS Gate, Prop
VARIABLES bags, ns, live, nv, l      \* per tree 1..3: multiset, size, does it exist (tree 1 always; 2 and 3 are made by Clone)
vars == <<bags, ns, live, nv, l>>
Trees == 1..3
Ev == Trace[l]
B0(k) == [v \in 1..k |-> 0]
CountIn(s, v) == Cardinality({i \in 1..Len(s) : s[i] = v})
Sorted(s) == \A i \in 1..Len(s) - 1 : s[i] <= s[i + 1]
RECURSIVE Join(_)
Join(q) == IF q = <<>> THEN "" ELSE IF Len(q) = 1 THEN ToString(q[1]) ELSE ToString(q[1]) \o " " \o Join(Tail(q))
\* is there a binary tree whose pre-, in- and post-order listings are p, i, q ?  (with duplicates every split is tried)
RECURSIVE Consistent(_, _, _)
Consistent(p, i, q) ==
  IF Len(p) = 0 THEN Len(i) = 0 /\ Len(q) = 0
  ELSE /\ Len(p) = Len(i) /\ Len(p) = Len(q) /\ p[1] = q[Len(q)]
       /\ \E j \in {k \in 1..Len(i) : i[k] = p[1]} :
            /\ Consistent(SubSeq(p, 2, j), SubSeq(i, 1, j - 1), SubSeq(q, 1, j - 1))
            /\ Consistent(SubSeq(p, j + 1, Len(p)), SubSeq(i, j + 1, Len(i)), SubSeq(q, j, Len(q) - 1))
\* heights of the height-balanced trees having pre-order p and in-order i (empty set: none is balanced); empty tree = -1
RECURSIVE BalH(_, _)
BalH(p, i) == IF Len(p) = 0 THEN {-1} ELSE
   UNION { LET hl == BalH(SubSeq(p, 2, j), SubSeq(i, 1, j - 1))
               hr == BalH(SubSeq(p, j + 1, Len(p)), SubSeq(i, j + 1, Len(i)))
           IN { 1 + (IF x[1] > x[2] THEN x[1] ELSE x[2]) : x \in { y \in hl \X hr : y[1] - y[2] \in {-1, 0, 1} } }
         : j \in { k \in 1..Len(i) : i[k] = p[1] } }
\* ---- C01 ----
\* "Remove(v) returns true ... when v is present, and otherwise returns false"; "Contains(v) is true exactly when v is in it"
C_Ret(pb, e) == e.op \in {"Remove", "Contains"} => e.ret = (pb[e.w][e.arg] > 0)
\* "Len equals its size" (Len included when Remove changes nothing)
C_Len(k, o) == o.len = k
\* "the in-order walk lists in non-decreasing order exactly the multiset of values added and not yet removed"
C_Sorted(o) == Sorted(o.ino)
C_Bag(b, k, o) == Len(o.ino) = k /\ \A v \in DOMAIN b : CountIn(o.ino, v) = b[v]
C_Has(b, o) == \A v \in DOMAIN b : o.has[v] = (b[v] > 0)
\* "the pre-, in- and post-order walks and slices are always three traversals of one and the same binary tree"
C_Consistent(o) == Consistent(o.pre, o.ino, o.post)
C_WalkSlice(o) == o.wpre = o.pre /\ o.wino = o.ino /\ o.wpost = o.post
C_String(o) == o.str = "[" \o Join(o.ino) \o "]"
\* "Clone works for a tree of any size"; nothing panics
C_NoPanic(e) == e.panic = ""
TreeOK(b, k, o, full) == C_Len(k, o) /\ (full => C_Sorted(o) /\ C_Bag(b, k, o) /\ C_Has(b, o) /\ C_Consistent(o) /\ C_WalkSlice(o) /\ C_String(o))
\* clone "returns a tree with the same contents that shares no state with the original": EVERY existing tree is observed after EVERY call
AllC01(bs, ks, lv, pbs, e) == /\ C_NoPanic(e) /\ C_Ret(pbs, e)
                              /\ \A i \in Trees : e.live[i] = lv[i] /\ (lv[i] => TreeOK(bs[i], ks[i], e.t[i], e.full))
\* ---- C02 ----
\* "After every Add or Remove the binary tree revealed by the pre-order and in-order traversals is height-balanced in the AVL sense"
C_Balanced(o) == BalH(o.pre, o.ino) # {}
AllC02(lv, e) == e.full => \A i \in Trees : (lv[i] /\ e.live[i]) => C_Balanced(e.t[i])
\* ---- transition ----
Bump(b, v, d) == [b EXCEPT ![v] = @ + d]
TInit == bags = [i \in Trees |-> B0(0)] /\ ns = [i \in Trees |-> 0] /\ live = [i \in Trees |-> i = 1] /\ nv = 0 /\ l = 1
Reset == /\ l <= Len(Trace) /\ Ev.op = "Reset" /\ l' = l + 1 /\ nv' = Ev.nv
         /\ bags' = [i \in Trees |-> B0(Ev.nv)] /\ ns' = [i \in Trees |-> 0] /\ live' = [i \in Trees |-> i = 1]
Step == /\ l <= Len(Trace) /\ Ev.op # "Reset" /\ l' = l + 1 /\ nv' = nv
        /\ LET e == Ev
               pres == (e.op = "Remove" /\ bags[e.w][e.arg] > 0) IN
           /\ bags' = CASE e.op = "Add" -> [bags EXCEPT ![e.w] = Bump(@, e.arg, 1)]
                         [] pres -> [bags EXCEPT ![e.w] = Bump(@, e.arg, -1)]
                         [] e.op = "Clear" -> [bags EXCEPT ![e.w] = B0(nv)]
                         [] e.op = "Clone" -> [bags EXCEPT ![e.dst] = bags[e.src]]
                         [] OTHER -> bags
           /\ ns' = CASE e.op = "Add" -> [ns EXCEPT ![e.w] = @ + 1]
                       [] pres -> [ns EXCEPT ![e.w] = @ - 1]
                       [] e.op = "Clear" -> [ns EXCEPT ![e.w] = 0]
                       [] e.op = "Clone" -> [ns EXCEPT ![e.dst] = ns[e.src]]
                       [] OTHER -> ns
           /\ live' = IF e.op = "Clone" THEN [live EXCEPT ![e.dst] = TRUE] ELSE live
           /\ (Gate => IF Prop = "C01" THEN AllC01(bags', ns', live', bags, e) ELSE AllC02(live', e))
TSpec == TInit /\ [][Reset \/ Step]_vars
Track == TrackL(l)
Accepted == AcceptedP
\* ---- diagnostic mode: clauses as invariants on the last consumed line (C_Ret needs the state before the call,
\*      which is recovered from the line itself) ----
Obs == Trace[l - 1]
Chk == ~Gate /\ l > 1 /\ Obs.op # "Reset"
Undo(bs, e) == IF e.op = "Remove" /\ e.ret THEN [bs EXCEPT ![e.w] = Bump(@, e.arg, 1)] ELSE bs
Ex(i) == live[i] /\ Obs.live[i]
I_NoPanic == Chk => C_NoPanic(Obs)
I_Ret == Chk => C_Ret(Undo(bags, Obs), Obs)
I_Len == Chk => \A i \in Trees : Ex(i) => C_Len(ns[i], Obs.t[i])
I_Sorted == Chk /\ Obs.full => \A i \in Trees : Ex(i) => C_Sorted(Obs.t[i])
I_Bag == Chk /\ Obs.full => \A i \in Trees : Ex(i) => C_Bag(bags[i], ns[i], Obs.t[i])
I_Has == Chk /\ Obs.full => \A i \in Trees : Ex(i) => C_Has(bags[i], Obs.t[i])
I_Consistent == Chk /\ Obs.full => \A i \in Trees : Ex(i) => C_Consistent(Obs.t[i])
I_WalkSlice == Chk /\ Obs.full => \A i \in Trees : Ex(i) => C_WalkSlice(Obs.t[i])
I_String == Chk /\ Obs.full => \A i \in Trees : Ex(i) => C_String(Obs.t[i])
I_Clone == Chk => \A i \in Trees : Obs.live[i] = live[i]
I_Balanced == Chk => AllC02(live, Obs)
====
