---- MODULE AVLAbsTrace ----
(* Abstract trace validator for C01 and C02.  Abstract state: the multiset of
   values in the tree (bag, with its size n) and in its clone (bag2, n2).
   Every clause quotes the property statements.  Prop selects which property's
   clauses decide acceptance.  Lines with full = FALSE carry no traversals
   (long generated histories log them only at checkpoints). *)
EXTENDS TraceLib, FiniteSets
CONSTANTS Gate, Prop
VARIABLES bag, n, bag2, n2, hasb, nv, l
vars == <<bag, n, bag2, n2, hasb, nv, l>>
Ev == Trace[l]
B0(k) == [v \in 1..k |-> 0]
CountIn(s, v) == Cardinality({i \in 1..Len(s) : s[i] = v})
Sorted(s) == \A i \in 1..Len(s) - 1 : s[i] <= s[i + 1]
RECURSIVE Join(_)
Join(q) == IF q = <<>> THEN "" ELSE IF Len(q) = 1 THEN ToString(q[1]) ELSE ToString(q[1]) \o " " \o Join(Tail(q))
\* is there a binary tree whose pre-, in- and post-order listings are p, i, q ?  (with duplicates every split is tried)
RECURSIVE Consistent(_, _, _)
Consistent(p, i, q) ==
  IF Len(p) = 0 THEN Len(i) = 0 /\ Len(q) = 0
  ELSE /\ Len(p) = Len(i) /\ Len(p) = Len(q) /\ p[1] = q[Len(q)]
       /\ \E j \in {k \in 1..Len(i) : i[k] = p[1]} :
            /\ Consistent(SubSeq(p, 2, j), SubSeq(i, 1, j - 1), SubSeq(q, 1, j - 1))
            /\ Consistent(SubSeq(p, j + 1, Len(p)), SubSeq(i, j + 1, Len(i)), SubSeq(q, j, Len(q) - 1))
\* heights of the height-balanced trees having pre-order p and in-order i (empty set: none is balanced); empty tree = -1
RECURSIVE BalH(_, _)
BalH(p, i) == IF Len(p) = 0 THEN {-1} ELSE
   UNION { LET hl == BalH(SubSeq(p, 2, j), SubSeq(i, 1, j - 1))
               hr == BalH(SubSeq(p, j + 1, Len(p)), SubSeq(i, j + 1, Len(i)))
           IN { 1 + (IF x[1] > x[2] THEN x[1] ELSE x[2]) : x \in { y \in hl \X hr : y[1] - y[2] \in {-1, 0, 1} } }
         : j \in { k \in 1..Len(i) : i[k] = p[1] } }
\* ---- C01 ----
\* "Remove(v) returns true ... when v is present, and otherwise returns false"; "Contains(v) is true exactly when v is in it"
C_Ret(b, b2, e) == CASE e.op \in {"Remove", "Contains"} -> e.ret = (b[e.arg] > 0)
                     [] e.op = "Remove2" -> e.ret = (b2[e.arg] > 0)
                     [] OTHER -> TRUE
\* "Len equals its size" (Len included when Remove changes nothing)
C_Len(k, o) == o.len = k
\* "the in-order walk lists in non-decreasing order exactly the multiset of values added and not yet removed"
C_Sorted(o) == Sorted(o.ino)
C_Bag(b, k, o) == Len(o.ino) = k /\ \A v \in DOMAIN b : CountIn(o.ino, v) = b[v]
C_Has(b, o) == \A v \in DOMAIN b : o.has[v] = (b[v] > 0)
\* "the pre-, in- and post-order walks and slices are always three traversals of one and the same binary tree"
C_Consistent(o) == Consistent(o.pre, o.ino, o.post)
C_WalkSlice(o) == o.wpre = o.pre /\ o.wino = o.ino /\ o.wpost = o.post
C_String(o) == o.str = "[" \o Join(o.ino) \o "]"
\* "Clone works for a tree of any size"; nothing panics
C_NoPanic(e) == e.panic = ""
TreeOK(b, k, o, full) == C_Len(k, o) /\ (full => C_Sorted(o) /\ C_Bag(b, k, o) /\ C_Has(b, o) /\ C_Consistent(o) /\ C_WalkSlice(o) /\ C_String(o))
\* clone "returns a tree with the same contents that shares no state with the original": both trees are observed after every call
AllC01(b, k, b2, k2, hb, pb, pb2, e) == /\ C_NoPanic(e) /\ C_Ret(pb, pb2, e) /\ TreeOK(b, k, e.a, e.full)
                                        /\ e.hasb = hb /\ (hb => TreeOK(b2, k2, e.b, e.full))
\* ---- C02 ----
\* "After every Add or Remove the binary tree revealed by the pre-order and in-order traversals is height-balanced in the AVL sense"
C_Balanced(o) == BalH(o.pre, o.ino) # {}
AllC02(hb, e) == e.full => C_Balanced(e.a) /\ (hb /\ e.hasb => C_Balanced(e.b))
\* ---- transition ----
Bump(b, v, d) == [b EXCEPT ![v] = @ + d]
TInit == bag = B0(0) /\ n = 0 /\ bag2 = B0(0) /\ n2 = 0 /\ hasb = FALSE /\ nv = 0 /\ l = 1
Reset == /\ l <= Len(Trace) /\ Ev.op = "Reset" /\ l' = l + 1 /\ nv' = Ev.nv
         /\ bag' = B0(Ev.nv) /\ n' = 0 /\ bag2' = B0(Ev.nv) /\ n2' = 0 /\ hasb' = FALSE
Step == /\ l <= Len(Trace) /\ Ev.op # "Reset" /\ l' = l + 1 /\ nv' = nv
        /\ LET e == Ev
               pres == (e.op = "Remove" /\ bag[e.arg] > 0)
               pres2 == (e.op = "Remove2" /\ bag2[e.arg] > 0) IN
           /\ bag' = CASE e.op = "Add" -> Bump(bag, e.arg, 1) [] pres -> Bump(bag, e.arg, -1) [] e.op = "Clear" -> B0(nv) [] OTHER -> bag
           /\ n' = CASE e.op = "Add" -> n + 1 [] pres -> n - 1 [] e.op = "Clear" -> 0 [] OTHER -> n
           /\ bag2' = CASE e.op = "Add2" -> Bump(bag2, e.arg, 1) [] pres2 -> Bump(bag2, e.arg, -1) [] e.op = "Clone" -> bag [] OTHER -> bag2
           /\ n2' = CASE e.op = "Add2" -> n2 + 1 [] pres2 -> n2 - 1 [] e.op = "Clone" -> n [] OTHER -> n2
           /\ hasb' = (hasb \/ e.op = "Clone")
           /\ (Gate => IF Prop = "C01" THEN AllC01(bag', n', bag2', n2', hasb', bag, bag2, e) ELSE AllC02(hasb', e))
TSpec == TInit /\ [][Reset \/ Step]_vars
Track == TrackL(l)
Accepted == AcceptedP
\* ---- diagnostic mode: clauses as invariants on the last consumed line (C_Ret needs the state before the call,
\*      which is recovered from the line itself) ----
Obs == Trace[l - 1]
Chk == ~Gate /\ l > 1 /\ Obs.op # "Reset"
Undo(b, e, o) == IF e.op = o /\ e.ret THEN Bump(b, e.arg, 1) ELSE b
I_NoPanic == Chk => C_NoPanic(Obs)
I_Ret == Chk => C_Ret(Undo(bag, Obs, "Remove"), Undo(bag2, Obs, "Remove2"), Obs)
I_Len == Chk => C_Len(n, Obs.a) /\ (hasb /\ Obs.hasb => C_Len(n2, Obs.b))
I_Sorted == Chk /\ Obs.full => C_Sorted(Obs.a) /\ (hasb /\ Obs.hasb => C_Sorted(Obs.b))
I_Bag == Chk /\ Obs.full => C_Bag(bag, n, Obs.a) /\ (hasb /\ Obs.hasb => C_Bag(bag2, n2, Obs.b))
I_Has == Chk /\ Obs.full => C_Has(bag, Obs.a) /\ (hasb /\ Obs.hasb => C_Has(bag2, Obs.b))
I_Consistent == Chk /\ Obs.full => C_Consistent(Obs.a) /\ (hasb /\ Obs.hasb => C_Consistent(Obs.b))
I_WalkSlice == Chk /\ Obs.full => C_WalkSlice(Obs.a) /\ (hasb /\ Obs.hasb => C_WalkSlice(Obs.b))
I_String == Chk /\ Obs.full => C_String(Obs.a) /\ (hasb /\ Obs.hasb => C_String(Obs.b))
I_Clone == Chk => Obs.hasb = hasb
I_Balanced == Chk => AllC02(hasb, Obs)
====
