---- MODULE AVL ----
(* Implementation-level model of avl.Tree (C01, C02): the intended algorithm,
   transcribed function by function from avl/avl.go.
   A (sub)tree is <<>> (nil) or <<value, left, right, height>> with the code's
   height convention: a leaf has height 0, so an empty subtree counts as -1.
   node.add: descend (equal goes right), refresh the height, rebalance.
   node.remove: four cases; two children => popLeftMost of the right subtree.
   rebalance: single or double rotation chosen from the child's lean.
   Tree: root, count; Clone = re-insertion of the pre-order walk into an empty
   tree with the same comparator.  A second tree (the clone) exists so that
   independence is a state property.  bag/bag2 are the abstract multisets. *)
EXTENDS Integers, Sequences, FiniteSets, TLC, Json
CONSTANTS Vals, MaxMult, MaxSize, CloneMax, CloneOps
VARIABLES tree, count, bag, tree2, count2, bag2, phase, last
vars == <<tree, count, bag, tree2, count2, bag2, phase, last>>
E == <<>>
IsE(t) == Len(t) = 0
V(t) == t[1]
L(t) == t[2]
R(t) == t[3]
H(t) == IF IsE(t) THEN -1 ELSE t[4]            \* leftHeight()/rightHeight(): empty is one lower than a leaf
Max(a, b) == IF a > b THEN a ELSE b
Mk(v, l, r) == <<v, l, r, 1 + Max(H(l), H(r))>>   \* calcHeight()
RotL(t) == Mk(V(R(t)), Mk(V(t), L(t), L(R(t))), R(R(t)))      \* rotateLeft
RotR(t) == Mk(V(L(t)), L(L(t)), Mk(V(t), R(L(t)), R(t)))      \* rotateRight
Rebal(t) ==                                                    \* rebalance
  IF H(R(t)) - H(L(t)) > 1 THEN
     (IF H(L(R(t))) > H(R(R(t))) THEN RotL(Mk(V(t), L(t), RotR(R(t)))) ELSE RotL(t))    \* rotateLeftRight / rotateLeft
  ELSE IF H(L(t)) - H(R(t)) > 1 THEN
     (IF H(R(L(t))) > H(L(L(t))) THEN RotR(Mk(V(t), RotL(L(t)), R(t))) ELSE RotR(t))    \* rotateRightLeft / rotateRight
  ELSE t
RECURSIVE AddT(_, _)
AddT(t, v) == IF IsE(t) THEN Mk(v, E, E)
              ELSE IF v < V(t) THEN Rebal(Mk(V(t), AddT(L(t), v), R(t)))
              ELSE Rebal(Mk(V(t), L(t), AddT(R(t), v)))
RECURSIVE PopLeft(_)       \* <<remaining subtree, popped value>>
PopLeft(t) == IF IsE(L(t)) THEN <<R(t), V(t)>>
              ELSE LET p == PopLeft(L(t)) IN <<Rebal(Mk(V(t), p[1], R(t))), p[2]>>
RECURSIVE RemT(_, _)       \* <<new subtree, found>>
RemT(t, v) ==
  IF IsE(t) THEN <<t, FALSE>>
  ELSE IF V(t) = v THEN
     IF IsE(L(t)) /\ IsE(R(t)) THEN <<E, TRUE>>
     ELSE IF IsE(L(t)) THEN <<R(t), TRUE>>
     ELSE IF IsE(R(t)) THEN <<L(t), TRUE>>
     ELSE LET p == PopLeft(R(t)) IN <<Rebal(Mk(p[2], L(t), p[1])), TRUE>>
  ELSE IF ~IsE(L(t)) /\ v < V(t) THEN LET r == RemT(L(t), v) IN IF r[2] THEN <<Rebal(Mk(V(t), r[1], R(t))), TRUE>> ELSE <<t, FALSE>>
  ELSE IF ~IsE(R(t)) THEN LET r == RemT(R(t), v) IN IF r[2] THEN <<Rebal(Mk(V(t), L(t), r[1])), TRUE>> ELSE <<t, FALSE>>
  ELSE <<t, FALSE>>
\* node.find: value equal -> found; smaller and a left child exists -> left; else right child if any
RECURSIVE Find(_, _)
Find(t, v) == IF IsE(t) THEN FALSE ELSE IF V(t) = v THEN TRUE
              ELSE IF ~IsE(L(t)) /\ v < V(t) THEN Find(L(t), v)
              ELSE IF ~IsE(R(t)) THEN Find(R(t), v) ELSE FALSE
RECURSIVE InO(_), PreO(_), PostO(_), RealH(_), Bal(_)
InO(t) == IF IsE(t) THEN <<>> ELSE InO(L(t)) \o <<V(t)>> \o InO(R(t))
PreO(t) == IF IsE(t) THEN <<>> ELSE <<V(t)>> \o PreO(L(t)) \o PreO(R(t))
PostO(t) == IF IsE(t) THEN <<>> ELSE PostO(L(t)) \o PostO(R(t)) \o <<V(t)>>
RealH(t) == IF IsE(t) THEN -1 ELSE 1 + Max(RealH(L(t)), RealH(R(t)))
Bal(t) == IsE(t) \/ (Bal(L(t)) /\ Bal(R(t)) /\ H(t) = RealH(t) /\ H(L(t)) - H(R(t)) \in {-1, 0, 1})
RECURSIVE FoldAdd(_, _)
FoldAdd(t, s) == IF s = <<>> THEN t ELSE FoldAdd(AddT(t, s[1]), Tail(s))
Size(t) == Len(InO(t))
Bag0 == [v \in Vals |-> 0]
Op(o, a, r) == [op |-> o, arg |-> a, ret |-> r]
Init == /\ tree = E /\ count = 0 /\ bag = Bag0 /\ tree2 = E /\ count2 = 0 /\ bag2 = Bag0 /\ phase = -1
        /\ last = Op("Reset", 0, FALSE)
Mut == phase = -1 \/ phase > 0
Tick == phase' = IF phase > 0 THEN phase - 1 ELSE phase
Keep2 == UNCHANGED <<tree2, count2, bag2>>
Keep1 == UNCHANGED <<tree, count, bag>>
Add(v) == /\ Mut /\ bag[v] < MaxMult /\ count < MaxSize /\ Tick /\ Keep2
          /\ tree' = AddT(tree, v) /\ count' = count + 1 /\ bag' = [bag EXCEPT ![v] = @ + 1] /\ last' = Op("Add", v, TRUE)
Remove(v) == /\ Mut /\ Tick /\ Keep2
             /\ LET r == RemT(tree, v) IN
                /\ tree' = r[1] /\ count' = IF r[2] THEN count - 1 ELSE count
                /\ bag' = [bag EXCEPT ![v] = IF r[2] THEN @ - 1 ELSE @] /\ last' = Op("Remove", v, r[2])
Clear == /\ Mut /\ count > 0 /\ Tick /\ Keep2 /\ tree' = E /\ count' = 0 /\ bag' = Bag0 /\ last' = Op("Clear", 0, TRUE)
Contains(v) == /\ phase = -1 /\ UNCHANGED <<tree, count, bag, tree2, count2, bag2, phase>> /\ last' = Op("Contains", v, Find(tree, v))
Clone == /\ phase = -1 /\ count <= CloneMax /\ Keep1 /\ phase' = CloneOps
         /\ tree2' = FoldAdd(E, PreO(tree)) /\ count2' = count /\ bag2' = bag /\ last' = Op("Clone", 0, TRUE)
Add2(v) == /\ phase > 0 /\ bag2[v] < MaxMult /\ Tick /\ Keep1
           /\ tree2' = AddT(tree2, v) /\ count2' = count2 + 1 /\ bag2' = [bag2 EXCEPT ![v] = @ + 1] /\ last' = Op("Add2", v, TRUE)
Remove2(v) == /\ phase > 0 /\ Tick /\ Keep1
              /\ LET r == RemT(tree2, v) IN
                 /\ tree2' = r[1] /\ count2' = IF r[2] THEN count2 - 1 ELSE count2
                 /\ bag2' = [bag2 EXCEPT ![v] = IF r[2] THEN @ - 1 ELSE @] /\ last' = Op("Remove2", v, r[2])
Next == Clear \/ Clone \/ \E v \in Vals : Add(v) \/ Remove(v) \/ Contains(v) \/ Add2(v) \/ Remove2(v)
Spec == Init /\ [][Next]_vars
\* ---- the properties on the model ----
Sorted(s) == \A i \in 1..Len(s) - 1 : s[i] <= s[i + 1]
CountIn(s, v) == Cardinality({i \in 1..Len(s) : s[i] = v})
InvSorted == Sorted(InO(tree)) /\ Sorted(InO(tree2))
InvBag == \A v \in Vals : CountIn(InO(tree), v) = bag[v] /\ CountIn(InO(tree2), v) = bag2[v]
InvLen == count = Size(tree) /\ count2 = Size(tree2)
InvContains == \A v \in Vals : Find(tree, v) = (bag[v] > 0) /\ Find(tree2, v) = (bag2[v] > 0)
InvBalanced == Bal(tree) /\ Bal(tree2)                                  \* C02, incl. cached heights = real heights
RemoveAbsentNoOp == [][last'.op = "Remove" /\ ~last'.ret => tree' = tree /\ count' = count]_vars
View == <<tree, count, tree2, count2, phase>>
Shape(t) == <<PreO(t), InO(t)>>
\* (the node identity must be the tree itself: with duplicate values two different trees can share all traversals)
LogEdge == PrintT(<<"E", ToJson([f |-> <<tree, tree2, phase>>, t |-> <<tree', tree2', phase'>>,
                                  op |-> [op |-> last'.op, arg |-> last'.arg, ret |-> last'.ret, xpre |-> PreO(tree'), xpre2 |-> PreO(tree2')]])>>)
====
