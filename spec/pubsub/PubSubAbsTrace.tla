---- MODULE PubSubAbsTrace ----
(* Abstract trace validator for C10: a monitor over what is observable from
   outside a chans.PubSub -- calls starting and returning, values received per
   subscription, OnPubTimeout calls, channels found closed, the process dying.
   The value of event number i of publish call id is id*10+i, so every
   delivery can be attributed to its call.  For a publish call, low[id] is the
   set of channels subscribed throughout the call so far and up[id] the set
   subscribed at some moment of the call (the snapshot the call takes lies
   between them).  Timeouts cannot be attributed to a subscriber (the callback
   gets only the event), so they are counted per value.  No action explains a
   "crash" or "stuck" line. *)
EXTENDS TraceLib, FiniteSets
CONSTANTS Gate, MaxCalls
VARIABLES subs, removed, calls, deliv, tmo, usub, l
vars == <<subs, removed, calls, deliv, tmo, usub, l>>
Ev == Trace[l]
Ids == 1..MaxCalls
NoCall == [st |-> "none", kind |-> "", n |-> 0, low |-> {}, up |-> {}, only |-> 0]
Waits(k) == k \in {"PubWait", "PubSliceWait", "PubSync", "PubSliceSync"}
Syncs(k) == k \in {"PubSync", "PubSliceSync"}
CallOf(v) == v \div 10
IdxOf(v) == v % 10
TInit == /\ subs = {} /\ removed = {} /\ calls = [i \in Ids |-> NoCall] /\ deliv = [v \in {} |-> {}] /\ tmo = [v \in {} |-> 0]
         /\ usub = [c |-> 0, was |-> FALSE] /\ l = 1
IsEv(e) == l <= Len(Trace) /\ Trace[l].ev = e /\ l' = l + 1
Keep(vs) == UNCHANGED vs
TReset == /\ IsEv("reset") /\ subs' = {} /\ removed' = {} /\ calls' = [i \in Ids |-> NoCall] /\ deliv' = [v \in {} |-> {}]
          /\ tmo' = [v \in {} |-> 0] /\ usub' = [c |-> 0, was |-> FALSE]
Active(c) == c.st = "run"
\* Sub: the new channel may be seen by publish calls still running
TSub == /\ IsEv("sub") /\ subs' = subs \cup {Ev.c}
        /\ calls' = [i \in Ids |-> IF Active(calls[i]) /\ calls[i].only = 0 THEN [calls[i] EXCEPT !.up = @ \cup {Ev.c}] ELSE calls[i]]
        /\ Keep(<<removed, deliv, tmo, usub>>)
\* Unsub starts: from now on the channel no longer counts as "subscribed throughout" for any call whose sends may be pending
TUnsubStart == /\ IsEv("unsub_start")
               /\ usub' = [c |-> Ev.c, was |-> Ev.c \in subs]
               /\ calls' = [i \in Ids |-> IF calls[i].st # "none" THEN [calls[i] EXCEPT !.low = @ \ {Ev.c}] ELSE calls[i]]
               /\ Keep(<<subs, removed, deliv, tmo>>)
\* "an unknown channel gives ErrAlreadyUnsubscribed, a nil one ErrSubscriptionNotInitalized"; a known one is removed (and closed)
TUnsubRet == /\ IsEv("unsub_ret") /\ Ev.c = usub.c
             /\ Ev.err = (IF Ev.c = 0 THEN "notinit" ELSE IF usub.was THEN "" ELSE "already")
             /\ subs' = subs \ {Ev.c} /\ removed' = IF usub.was THEN removed \cup {Ev.c} ELSE removed
             /\ Keep(<<calls, deliv, tmo, usub>>)
TUnsubAll == /\ IsEv("unsuball") /\ removed' = removed \cup subs /\ subs' = {}
             /\ calls' = [i \in Ids |-> IF calls[i].st # "none" THEN [calls[i] EXCEPT !.low = {}] ELSE calls[i]]
             /\ Keep(<<deliv, tmo, usub>>)
TPubStart == /\ IsEv("pub_start") /\ calls[Ev.id].st = "none"
             /\ LET tg == IF Ev.only = 0 THEN subs ELSE subs \cap {Ev.only} IN      \* "WithOnly publishes to the one given subscription only"
                calls' = [calls EXCEPT ![Ev.id] = [st |-> "run", kind |-> Ev.kind, n |-> Ev.n, low |-> tg, up |-> tg, only |-> Ev.only]]
             /\ deliv' = [v \in DOMAIN deliv \cup {Ev.id * 10 + i : i \in 1..Ev.n} |-> IF v \in DOMAIN deliv THEN deliv[v] ELSE {}]
             /\ tmo' = [v \in DOMAIN tmo \cup {Ev.id * 10 + i : i \in 1..Ev.n} |-> IF v \in DOMAIN tmo THEN tmo[v] ELSE 0]
             /\ Keep(<<subs, removed, usub>>)
\* a value arrives on a subscription
TRecv == /\ IsEv("recv")
         /\ LET v == Ev.v  id == CallOf(v)  c == Ev.c IN
            /\ v \in DOMAIN deliv /\ calls[id].st # "none"                       \* never invented
            /\ c \in calls[id].up                                                \* only to channels subscribed during the call / the WithOnly target
            /\ c \notin deliv[v]                                                 \* "exactly once": never twice
            /\ (Syncs(calls[id].kind) => \A j \in 1..(IdxOf(v) - 1) : c \in deliv[id * 10 + j] \/ tmo[id * 10 + j] > 0)   \* "the Sync variants in publication order"
            /\ deliv' = [deliv EXCEPT ![v] = @ \cup {c}]
         /\ Keep(<<subs, removed, calls, tmo, usub>>)
\* a subscription is found closed: "Unsub and UnsubAll close exactly the channels they remove"
TClosed == /\ IsEv("recv_closed") /\ (Ev.c \in removed \/ (usub.c = Ev.c /\ usub.was)) /\ Keep(<<subs, removed, calls, deliv, tmo, usub>>)
\* a subscription that is still subscribed is open and empty
TNone == /\ IsEv("recv_none") /\ Ev.c \notin removed /\ Keep(<<subs, removed, calls, deliv, tmo, usub>>)
\* OnPubTimeout(v): "each (event, subscriber) pair ends in exactly one of a delivery or one OnPubTimeout call"
TTimeout == /\ IsEv("timeout_cb") /\ Ev.v \in DOMAIN tmo /\ Ev.tmo_on
            /\ tmo[Ev.v] + Cardinality(deliv[Ev.v]) < Cardinality(calls[CallOf(Ev.v)].up)      \* never both, never two for one pair
            /\ tmo' = [tmo EXCEPT ![Ev.v] = @ + 1] /\ Keep(<<subs, removed, calls, deliv, usub>>)
\* every (event, channel subscribed throughout) pair of the call is settled: delivered, or accounted for by a timeout
Settled(id) == \A i \in 1..calls[id].n : LET v == id * 10 + i IN
                  Cardinality(calls[id].low \ deliv[v]) <= tmo[v]
\* "the Wait and Sync variants return only after every such hand-off has finished": checked when the harness has drained,
\* without blocking, whatever was already handed to the buffers at the moment the call returned
TPubRet == /\ IsEv("pub_ret") /\ calls[Ev.id].st = "run"
           /\ calls' = [calls EXCEPT ![Ev.id].st = "ret"] /\ Keep(<<subs, removed, deliv, tmo, usub>>)
TRetCheck == /\ IsEv("retcheck") /\ calls[Ev.id].st = "ret"
             /\ (Waits(calls[Ev.id].kind) => Settled(Ev.id))
             /\ Keep(<<subs, removed, calls, deliv, tmo, usub>>)
\* quiescence with every subscription drained: every call, asynchronous ones included ("eventually"), is settled
TEnd == /\ IsEv("end") /\ \A id \in Ids : calls[id].st # "none" => (calls[id].st = "ret" /\ Settled(id))
        /\ Keep(<<subs, removed, calls, deliv, tmo, usub>>)
TInfo == IsEv("info") /\ Keep(<<subs, removed, calls, deliv, tmo, usub>>)
\* summaries of uncontrolled rounds (see the driver): simultaneous Unsub calls of different / the same channels - per channel
\* exactly one nil return, every channel closed and empty after a later PubSync; simultaneous publishers racing for the last
\* buffer slot of a stalled subscriber under a positive timeout - every call returns, deliveries + timeouts = calls
TBurst == (IsEv("uburst") \/ IsEv("sburst")) /\ Ev.bad = 0 /\ Keep(<<subs, removed, calls, deliv, tmo, usub>>)
TNext == TBurst \/ TReset \/ TSub \/ TUnsubStart \/ TUnsubRet \/ TUnsubAll \/ TPubStart \/ TRecv \/ TClosed \/ TNone \/ TTimeout \/ TPubRet
         \/ TRetCheck \/ TEnd \/ TInfo
TSpec == TInit /\ [][TNext]_vars
Track == TrackL(l)
Accepted == AcceptedP
====
