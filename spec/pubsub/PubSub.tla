---- MODULE PubSub ----
(* Design-level model of chans.PubSub (C10): the subscriber list under a
   writer-preferring RWMutex, Go channels (buffer, closed flag, a parked
   receiver), publisher calls Pub / PubWait / PubSync, the sender goroutines
   Pub and PubWait spawn (which run AFTER the read lock is released), the
   WaitGroup of PubWait, timer expiry of a pending send (PubTimeoutAfter > 0)
   leading to an OnPubTimeout call, Sub, and Unsub (find, close, splice under
   the write lock).  Sending on a closed channel moves to the absorbing state
   panic.
   Recover = FALSE is the pinned design: TLC finds Sub; Pub; Unsub with nobody
   receiving -> the pending asynchronous send hits the closed channel.
   Recover = TRUE is the repaired design (the asynchronous send treats a closed
   channel as "subscriber gone"): NoPanic, at-most-once, wait-returns-after-
   hand-off and exactly-once-at-quiescence hold, with and without timers.
   Holding the read lock across the asynchronous sends instead would deadlock
   a subscriber that stops receiving and then unsubscribes (Unsub waits for
   the send, the send waits for the receiver). *)
EXTENDS Integers, Sequences, FiniteSets, TLC
CONSTANTS Chans,        \* channel ids that may be created by Sub
          Pubs,         \* publisher ids
          Kinds,        \* subset of {"Pub","PubWait","PubSync"}
          Timeout,      \* BOOLEAN: PubTimeoutAfter > 0
          Recover,      \* BOOLEAN: the asynchronous send tolerates a channel closed by Unsub (the repair)
          ClonePubs,    \* publishers that publish through a WithOnly clone bound to channel OnlyChan (own mutex, not the parent's)
          SyncRecover   \* BOOLEAN: the synchronous send tolerates a closed channel too (needed because a clone does not share the lock)
CapOf == <<0, 1>>
VARIABLES subs,     \* sequence of subscribed channel ids
          created,  \* set of channels created so far
          buf, closed, rwait,   \* channel state; rwait[c]: a receiver is parked in <-c
          got,      \* [Chans -> Seq(event)] values received by the harness receiver
          rd, wr, wwait,        \* RWMutex: reader count, writer held, writer pending
          snd,      \* set of sender goroutines [id, c, ev, p, wg, st]
          nid,
          pst,      \* [Pubs -> record] publisher state
          ust,      \* unsubscriber state
          tmo,      \* bag of OnPubTimeout calls: set of <<ev, c>> (c kept only for checking)
          panic
vars == <<subs, created, buf, closed, rwait, got, rd, wr, wwait, snd, nid, pst, ust, tmo, panic>>
Ev(p) == p * 10
OnlyChan == CHOOSE c \in Chans : \A d \in Chans : c <= d
Init == /\ subs = <<>> /\ created = {} /\ buf = [c \in Chans |-> <<>>] /\ closed = [c \in Chans |-> FALSE]
        /\ rwait = [c \in Chans |-> FALSE] /\ got = [c \in Chans |-> <<>>]
        /\ rd = 0 /\ wr = FALSE /\ wwait = FALSE /\ snd = {} /\ nid = 1
        /\ pst = [p \in Pubs |-> [pc |-> "idle", kind |-> "", targets |-> <<>>, i |-> 0, wgc |-> 0, snap |-> <<>>]]
        /\ ust = [pc |-> "idle", c |-> 0] /\ tmo = {} /\ panic = FALSE
Range(s) == {s[i] : i \in 1..Len(s)}
\* --- Sub (atomic under write lock) ---
Sub(c) == /\ c \notin created /\ ~wr /\ rd = 0 /\ ~panic
          /\ created' = created \cup {c} /\ subs' = Append(subs, c)
          /\ UNCHANGED <<buf, closed, rwait, got, rd, wr, wwait, snd, nid, pst, ust, tmo, panic>>
\* --- harness receiver: eager, one per channel ---
RecvPark(c) == /\ c \in created /\ ~rwait[c] /\ ~(closed[c] /\ buf[c] = <<>>) /\ buf[c] = <<>> /\ ~closed[c]
               /\ rwait' = [rwait EXCEPT ![c] = TRUE]
               /\ UNCHANGED <<subs, created, buf, closed, got, rd, wr, wwait, snd, nid, pst, ust, tmo, panic>>
RecvBuf(c) == /\ c \in created /\ buf[c] # <<>>
              /\ got' = [got EXCEPT ![c] = Append(@, Head(buf[c]))] /\ buf' = [buf EXCEPT ![c] = Tail(@)]
              /\ UNCHANGED <<subs, created, closed, rwait, rd, wr, wwait, snd, nid, pst, ust, tmo, panic>>
\* --- channel send by anybody: returns new <<buf, rwait, got>> or "block" ---
CanSend(c) == Len(buf[c]) < CapOf[c] \/ rwait[c]
DoSend(c, ev) == IF rwait[c] THEN /\ got' = [got EXCEPT ![c] = Append(@, ev)] /\ rwait' = [rwait EXCEPT ![c] = FALSE] /\ UNCHANGED buf
                 ELSE /\ buf' = [buf EXCEPT ![c] = Append(@, ev)] /\ UNCHANGED <<got, rwait>>
\* --- publishers ---
\* a WithOnly clone made while OnlyChan was subscribed: it keeps the channel for good and has its own mutex
CloneStart(p, k) == /\ p \in ClonePubs /\ pst[p].pc = "idle" /\ ~panic /\ OnlyChan \in created
                    /\ IF k = "PubSync"
                       THEN /\ pst' = [pst EXCEPT ![p] = [pc |-> "csync", kind |-> k, targets |-> <<OnlyChan>>, i |-> 1, wgc |-> 0, snap |-> <<OnlyChan>>]]
                            /\ UNCHANGED <<snd, nid>>
                       ELSE /\ snd' = snd \cup {[id |-> nid, c |-> OnlyChan, ev |-> Ev(p), p |-> p, wg |-> (k = "PubWait"), st |-> "ready"]}
                            /\ nid' = nid + 1
                            /\ pst' = [pst EXCEPT ![p] = [pc |-> IF k = "PubWait" THEN "wait" ELSE "done", kind |-> k, targets |-> <<OnlyChan>>, i |-> 0, wgc |-> 1, snap |-> <<OnlyChan>>]]
                    /\ UNCHANGED <<subs, created, buf, closed, rwait, got, rd, wr, wwait, ust, tmo, panic>>
\* the clone's synchronous send: not under the parent's lock, so the channel may have been closed meanwhile
CSyncSend(p) == /\ pst[p].pc = "csync" /\ pst[p].i = 1
                /\ IF closed[OnlyChan]
                   THEN /\ (IF SyncRecover THEN UNCHANGED panic ELSE panic' = TRUE) /\ UNCHANGED <<buf, rwait, got>>
                   ELSE /\ CanSend(OnlyChan) /\ DoSend(OnlyChan, Ev(p)) /\ UNCHANGED panic
                /\ pst' = [pst EXCEPT ![p].i = 2, ![p].pc = "done"]
                /\ UNCHANGED <<subs, created, closed, rd, wr, wwait, snd, nid, ust, tmo>>
PStart(p, k) == /\ p \notin ClonePubs /\ pst[p].pc = "idle" /\ ~wr /\ ~wwait /\ ~panic
                /\ rd' = IF k = "PubSync" THEN rd + 1 ELSE rd   \* async kinds: RLock..RUnlock in one step
                /\ IF k = "PubSync"
                   THEN /\ pst' = [pst EXCEPT ![p] = [pc |-> "sync", kind |-> k, targets |-> subs, i |-> 1, wgc |-> 0, snap |-> subs]]
                        /\ UNCHANGED <<snd, nid>>
                   ELSE /\ snd' = snd \cup { [id |-> nid + j - 1, c |-> subs[j], ev |-> Ev(p), p |-> p, wg |-> (k = "PubWait"), st |-> "ready"] : j \in 1..Len(subs) }
                        /\ nid' = nid + Len(subs)
                        /\ pst' = [pst EXCEPT ![p] = [pc |-> IF k = "PubWait" THEN "wait" ELSE "done", kind |-> k, targets |-> subs, i |-> 0, wgc |-> Len(subs), snap |-> subs]]
                /\ UNCHANGED <<subs, created, buf, closed, rwait, got, wr, wwait, ust, tmo, panic>>
PSyncSend(p) == /\ pst[p].pc = "sync" /\ pst[p].i <= Len(pst[p].targets)
                /\ LET c == pst[p].targets[pst[p].i] IN
                   /\ CanSend(c) /\ DoSend(c, Ev(p))
                   /\ pst' = [pst EXCEPT ![p].i = @ + 1]
                /\ UNCHANGED <<subs, created, closed, rd, wr, wwait, snd, nid, ust, tmo, panic>>
PSyncTimeout(p) == /\ Timeout /\ pst[p].pc = "sync" /\ pst[p].i <= Len(pst[p].targets)
                   /\ tmo' = tmo \cup {<<Ev(p), pst[p].targets[pst[p].i]>>}
                   /\ pst' = [pst EXCEPT ![p].i = @ + 1]
                   /\ UNCHANGED <<subs, created, buf, closed, rwait, got, rd, wr, wwait, snd, nid, ust, panic>>
PSyncEnd(p) == /\ pst[p].pc = "sync" /\ pst[p].i > Len(pst[p].targets)
               /\ rd' = rd - 1 /\ pst' = [pst EXCEPT ![p].pc = "done"]
               /\ UNCHANGED <<subs, created, buf, closed, rwait, got, wr, wwait, snd, nid, ust, tmo, panic>>
PWaitEnd(p) == /\ pst[p].pc = "wait" /\ pst[p].wgc = 0
               /\ pst' = [pst EXCEPT ![p].pc = "done"]
               /\ UNCHANGED <<subs, created, buf, closed, rwait, got, rd, wr, wwait, snd, nid, ust, tmo, panic>>
\* --- sender goroutines ---
Finish(g) == /\ snd' = (snd \ {g}) \cup {[g EXCEPT !.st = "done"]}
             /\ pst' = IF g.wg THEN [pst EXCEPT ![g.p].wgc = @ - 1] ELSE pst
SSend(g) == /\ g \in snd /\ g.st = "ready"
            /\ IF closed[g.c]
               THEN /\ (IF Recover THEN Finish(g) /\ UNCHANGED panic ELSE panic' = TRUE /\ UNCHANGED <<snd, pst>>)
                    /\ UNCHANGED <<buf, rwait, got>>
               ELSE /\ CanSend(g.c) /\ DoSend(g.c, g.ev) /\ Finish(g) /\ UNCHANGED panic
            /\ UNCHANGED <<subs, created, closed, rd, wr, wwait, nid, ust, tmo>>
STimeout(g) == /\ Timeout /\ g \in snd /\ g.st = "ready" /\ ~closed[g.c]
               /\ tmo' = tmo \cup {<<g.ev, g.c>>} /\ Finish(g)
               /\ UNCHANGED <<subs, created, buf, closed, rwait, got, rd, wr, wwait, nid, ust, panic>>
\* --- unsubscriber ---
UAnnounce(c) == /\ ust.pc = "idle" /\ c \in created /\ ~panic
                /\ ust' = [pc |-> "pending", c |-> c] /\ wwait' = TRUE
                /\ UNCHANGED <<subs, created, buf, closed, rwait, got, rd, wr, snd, nid, pst, tmo, panic>>
Without(s, c) == SelectSeq(s, LAMBDA x : x # c)
UDo == /\ ust.pc = "pending" /\ rd = 0 /\ ~wr
       /\ wwait' = FALSE /\ ust' = [ust EXCEPT !.pc = "done"]
       /\ IF ust.c \in Range(subs)
          THEN /\ closed' = [closed EXCEPT ![ust.c] = TRUE] /\ subs' = Without(subs, ust.c)
               /\ rwait' = [rwait EXCEPT ![ust.c] = FALSE]   \* parked receiver observes the close
          ELSE UNCHANGED <<closed, subs, rwait>>
       /\ UNCHANGED <<created, buf, got, rd, wr, snd, nid, pst, tmo, panic>>
\* UnsubAll: closes every subscribed channel (writer lock)
UAllDo == /\ ust.pc = "idle" /\ rd = 0 /\ ~wr /\ ~wwait /\ ~panic /\ subs # <<>>
          /\ closed' = [c \in Chans |-> closed[c] \/ c \in Range(subs)] /\ subs' = <<>>
          /\ rwait' = [c \in Chans |-> rwait[c] /\ c \notin Range(subs)]
          /\ ust' = [ust EXCEPT !.pc = "done"]
          /\ UNCHANGED <<created, buf, got, rd, wr, wwait, snd, nid, pst, tmo, panic>>
Next == \/ \E c \in Chans : Sub(c) \/ RecvPark(c) \/ RecvBuf(c) \/ UAnnounce(c)
        \/ \E p \in Pubs : (\E k \in Kinds : PStart(p, k) \/ CloneStart(p, k)) \/ PSyncSend(p) \/ CSyncSend(p) \/ PSyncTimeout(p) \/ PSyncEnd(p) \/ PWaitEnd(p)
        \/ UAllDo
        \/ \E g \in snd : SSend(g) \/ STimeout(g)
        \/ UDo
Spec == Init /\ [][Next]_vars /\ WF_vars(Next)
NoPanic == ~panic
\* at most once per (event, channel); delivery xor timeout
Count(s, e) == Cardinality({i \in 1..Len(s) : s[i] = e})
AtMostOnce == \A c \in Chans, p \in Pubs : Count(got[c] \o buf[c], Ev(p)) + (IF <<Ev(p), c>> \in tmo THEN 1 ELSE 0) <= 1
WaitReturnsAfterHandoff == \A p \in Pubs : pst[p].pc = "done" /\ pst[p].kind \in {"PubWait", "PubSync"} =>
      \A j \in 1..Len(pst[p].snap) : LET c == pst[p].snap[j] IN
          closed[c] \/ Count(got[c] \o buf[c], Ev(p)) = 1 \/ <<Ev(p), c>> \in tmo
Quiescent == /\ \A g \in snd : g.st = "done" /\ \A p \in Pubs : pst[p].pc \in {"idle", "done"} /\ ust.pc # "pending"
ExactlyOnceAtQuiescence == Quiescent => \A p \in Pubs : pst[p].pc = "done" =>
      \A j \in 1..Len(pst[p].snap) : LET c == pst[p].snap[j] IN
          closed[c] \/ Count(got[c] \o buf[c], Ev(p)) + (IF <<Ev(p), c>> \in tmo THEN 1 ELSE 0) = 1
\* "WithOnly publishes to the one given subscription only"
WithOnlyOnly == \A p \in ClonePubs, c \in Chans \ {OnlyChan} : Count(got[c] \o buf[c], Ev(p)) = 0 /\ <<Ev(p), c>> \notin tmo
NothingAfterClose == \A c \in Chans : closed[c] => TRUE
EventuallyQuiescent == <>[]Quiescent
====
