---- MODULE PubSub_TTrace_1790898222 ----
EXTENDS PubSub, Sequences, TLCExt, Toolbox, Naturals, TLC

_expression ==
    LET PubSub_TEExpression == INSTANCE PubSub_TEExpression
    IN PubSub_TEExpression!expression
----

_trace ==
    LET PubSub_TETrace == INSTANCE PubSub_TETrace
    IN PubSub_TETrace!trace
----

_inv ==
    ~(
        TLCGet("level") = Len(_TETrace)
        /\
        subs = (<<>>)
        /\
        created = ({1})
        /\
        snd = ({})
        /\
        nid = (1)
        /\
        wwait = (FALSE)
        /\
        got = (<<<<>>, <<>>>>)
        /\
        panic = (TRUE)
        /\
        pst = (<<[pc |-> "idle", kind |-> "", targets |-> <<>>, i |-> 0, wgc |-> 0, snap |-> <<>>], [pc |-> "done", kind |-> "PubSync", targets |-> <<1>>, i |-> 2, wgc |-> 0, snap |-> <<1>>]>>)
        /\
        rd = (0)
        /\
        buf = (<<<<>>, <<>>>>)
        /\
        tmo = ({})
        /\
        ust = ([c |-> 1, pc |-> "done"])
        /\
        rwait = (<<FALSE, FALSE>>)
        /\
        closed = (<<TRUE, FALSE>>)
        /\
        wr = (FALSE)
    )
----

_init ==
    /\ tmo = _TETrace[1].tmo
    /\ ust = _TETrace[1].ust
    /\ panic = _TETrace[1].panic
    /\ rd = _TETrace[1].rd
    /\ rwait = _TETrace[1].rwait
    /\ buf = _TETrace[1].buf
    /\ pst = _TETrace[1].pst
    /\ snd = _TETrace[1].snd
    /\ got = _TETrace[1].got
    /\ nid = _TETrace[1].nid
    /\ created = _TETrace[1].created
    /\ subs = _TETrace[1].subs
    /\ closed = _TETrace[1].closed
    /\ wr = _TETrace[1].wr
    /\ wwait = _TETrace[1].wwait
----

_next ==
    /\ \E i,j \in DOMAIN _TETrace:
        /\ \/ /\ j = i + 1
              /\ i = TLCGet("level")
        /\ tmo  = _TETrace[i].tmo
        /\ tmo' = _TETrace[j].tmo
        /\ ust  = _TETrace[i].ust
        /\ ust' = _TETrace[j].ust
        /\ panic  = _TETrace[i].panic
        /\ panic' = _TETrace[j].panic
        /\ rd  = _TETrace[i].rd
        /\ rd' = _TETrace[j].rd
        /\ rwait  = _TETrace[i].rwait
        /\ rwait' = _TETrace[j].rwait
        /\ buf  = _TETrace[i].buf
        /\ buf' = _TETrace[j].buf
        /\ pst  = _TETrace[i].pst
        /\ pst' = _TETrace[j].pst
        /\ snd  = _TETrace[i].snd
        /\ snd' = _TETrace[j].snd
        /\ got  = _TETrace[i].got
        /\ got' = _TETrace[j].got
        /\ nid  = _TETrace[i].nid
        /\ nid' = _TETrace[j].nid
        /\ created  = _TETrace[i].created
        /\ created' = _TETrace[j].created
        /\ subs  = _TETrace[i].subs
        /\ subs' = _TETrace[j].subs
        /\ closed  = _TETrace[i].closed
        /\ closed' = _TETrace[j].closed
        /\ wr  = _TETrace[i].wr
        /\ wr' = _TETrace[j].wr
        /\ wwait  = _TETrace[i].wwait
        /\ wwait' = _TETrace[j].wwait

\* Uncomment the ASSUME below to write the states of the error trace
\* to the given file in Json format. Note that you can pass any tuple
\* to `JsonSerialize`. For example, a sub-sequence of _TETrace.
    \* ASSUME
    \*     LET J == INSTANCE Json
    \*         IN J!JsonSerialize("PubSub_TTrace_1790898222.json", _TETrace)

=============================================================================

 Note that you can extract this module `PubSub_TEExpression`
  to a dedicated file to reuse `expression` (the module in the 
  dedicated `PubSub_TEExpression.tla` file takes precedence 
  over the module `PubSub_TEExpression` below).

---- MODULE PubSub_TEExpression ----
EXTENDS PubSub, Sequences, TLCExt, Toolbox, Naturals, TLC

expression == 
    [
        \* To hide variables of the `PubSub` spec from the error trace,
        \* remove the variables below.  The trace will be written in the order
        \* of the fields of this record.
        tmo |-> tmo
        ,ust |-> ust
        ,panic |-> panic
        ,rd |-> rd
        ,rwait |-> rwait
        ,buf |-> buf
        ,pst |-> pst
        ,snd |-> snd
        ,got |-> got
        ,nid |-> nid
        ,created |-> created
        ,subs |-> subs
        ,closed |-> closed
        ,wr |-> wr
        ,wwait |-> wwait
        
        \* Put additional constant-, state-, and action-level expressions here:
        \* ,_stateNumber |-> _TEPosition
        \* ,_tmoUnchanged |-> tmo = tmo'
        
        \* Format the `tmo` variable as Json value.
        \* ,_tmoJson |->
        \*     LET J == INSTANCE Json
        \*     IN J!ToJson(tmo)
        
        \* Lastly, you may build expressions over arbitrary sets of states by
        \* leveraging the _TETrace operator.  For example, this is how to
        \* count the number of times a spec variable changed up to the current
        \* state in the trace.
        \* ,_tmoModCount |->
        \*     LET F[s \in DOMAIN _TETrace] ==
        \*         IF s = 1 THEN 0
        \*         ELSE IF _TETrace[s].tmo # _TETrace[s-1].tmo
        \*             THEN 1 + F[s-1] ELSE F[s-1]
        \*     IN F[_TEPosition - 1]
    ]

=============================================================================



Parsing and semantic processing can take forever if the trace below is long.
 In this case, it is advised to uncomment the module below to deserialize the
 trace from a generated binary file.

\*
\*---- MODULE PubSub_TETrace ----
\*EXTENDS PubSub, IOUtils, TLC
\*
\*trace == IODeserialize("PubSub_TTrace_1790898222.bin", TRUE)
\*
\*=============================================================================
\*

---- MODULE PubSub_TETrace ----
EXTENDS PubSub, TLC

trace == 
    <<
    ([subs |-> <<>>,created |-> {},snd |-> {},nid |-> 1,wwait |-> FALSE,got |-> <<<<>>, <<>>>>,panic |-> FALSE,pst |-> <<[pc |-> "idle", kind |-> "", targets |-> <<>>, i |-> 0, wgc |-> 0, snap |-> <<>>], [pc |-> "idle", kind |-> "", targets |-> <<>>, i |-> 0, wgc |-> 0, snap |-> <<>>]>>,rd |-> 0,buf |-> <<<<>>, <<>>>>,tmo |-> {},ust |-> [c |-> 0, pc |-> "idle"],rwait |-> <<FALSE, FALSE>>,closed |-> <<FALSE, FALSE>>,wr |-> FALSE]),
    ([subs |-> <<1>>,created |-> {1},snd |-> {},nid |-> 1,wwait |-> FALSE,got |-> <<<<>>, <<>>>>,panic |-> FALSE,pst |-> <<[pc |-> "idle", kind |-> "", targets |-> <<>>, i |-> 0, wgc |-> 0, snap |-> <<>>], [pc |-> "idle", kind |-> "", targets |-> <<>>, i |-> 0, wgc |-> 0, snap |-> <<>>]>>,rd |-> 0,buf |-> <<<<>>, <<>>>>,tmo |-> {},ust |-> [c |-> 0, pc |-> "idle"],rwait |-> <<FALSE, FALSE>>,closed |-> <<FALSE, FALSE>>,wr |-> FALSE]),
    ([subs |-> <<1>>,created |-> {1},snd |-> {},nid |-> 1,wwait |-> TRUE,got |-> <<<<>>, <<>>>>,panic |-> FALSE,pst |-> <<[pc |-> "idle", kind |-> "", targets |-> <<>>, i |-> 0, wgc |-> 0, snap |-> <<>>], [pc |-> "idle", kind |-> "", targets |-> <<>>, i |-> 0, wgc |-> 0, snap |-> <<>>]>>,rd |-> 0,buf |-> <<<<>>, <<>>>>,tmo |-> {},ust |-> [c |-> 1, pc |-> "pending"],rwait |-> <<FALSE, FALSE>>,closed |-> <<FALSE, FALSE>>,wr |-> FALSE]),
    ([subs |-> <<1>>,created |-> {1},snd |-> {},nid |-> 1,wwait |-> TRUE,got |-> <<<<>>, <<>>>>,panic |-> FALSE,pst |-> <<[pc |-> "idle", kind |-> "", targets |-> <<>>, i |-> 0, wgc |-> 0, snap |-> <<>>], [pc |-> "idle", kind |-> "", targets |-> <<>>, i |-> 0, wgc |-> 0, snap |-> <<>>]>>,rd |-> 0,buf |-> <<<<>>, <<>>>>,tmo |-> {},ust |-> [c |-> 1, pc |-> "pending"],rwait |-> <<TRUE, FALSE>>,closed |-> <<FALSE, FALSE>>,wr |-> FALSE]),
    ([subs |-> <<1>>,created |-> {1},snd |-> {},nid |-> 1,wwait |-> TRUE,got |-> <<<<>>, <<>>>>,panic |-> FALSE,pst |-> <<[pc |-> "idle", kind |-> "", targets |-> <<>>, i |-> 0, wgc |-> 0, snap |-> <<>>], [pc |-> "csync", kind |-> "PubSync", targets |-> <<1>>, i |-> 1, wgc |-> 0, snap |-> <<1>>]>>,rd |-> 0,buf |-> <<<<>>, <<>>>>,tmo |-> {},ust |-> [c |-> 1, pc |-> "pending"],rwait |-> <<TRUE, FALSE>>,closed |-> <<FALSE, FALSE>>,wr |-> FALSE]),
    ([subs |-> <<>>,created |-> {1},snd |-> {},nid |-> 1,wwait |-> FALSE,got |-> <<<<>>, <<>>>>,panic |-> FALSE,pst |-> <<[pc |-> "idle", kind |-> "", targets |-> <<>>, i |-> 0, wgc |-> 0, snap |-> <<>>], [pc |-> "csync", kind |-> "PubSync", targets |-> <<1>>, i |-> 1, wgc |-> 0, snap |-> <<1>>]>>,rd |-> 0,buf |-> <<<<>>, <<>>>>,tmo |-> {},ust |-> [c |-> 1, pc |-> "done"],rwait |-> <<FALSE, FALSE>>,closed |-> <<TRUE, FALSE>>,wr |-> FALSE]),
    ([subs |-> <<>>,created |-> {1},snd |-> {},nid |-> 1,wwait |-> FALSE,got |-> <<<<>>, <<>>>>,panic |-> TRUE,pst |-> <<[pc |-> "idle", kind |-> "", targets |-> <<>>, i |-> 0, wgc |-> 0, snap |-> <<>>], [pc |-> "done", kind |-> "PubSync", targets |-> <<1>>, i |-> 2, wgc |-> 0, snap |-> <<1>>]>>,rd |-> 0,buf |-> <<<<>>, <<>>>>,tmo |-> {},ust |-> [c |-> 1, pc |-> "done"],rwait |-> <<FALSE, FALSE>>,closed |-> <<TRUE, FALSE>>,wr |-> FALSE])
    >>
----


=============================================================================

---- CONFIG PubSub_TTrace_1790898222 ----
CONSTANTS
    Chans = { 1 , 2 }
    Pubs = { 1 , 2 }
    Kinds = { "Pub" , "PubWait" , "PubSync" }
    Timeout = FALSE
    Recover = TRUE
    ClonePubs = { 2 }
    SyncRecover = FALSE

INVARIANT
    _inv

CHECK_DEADLOCK
    \* CHECK_DEADLOCK off because of PROPERTY or INVARIANT above.
    FALSE

INIT
    _init

NEXT
    _next

CONSTANT
    _TETrace <- _trace

ALIAS
    _expression
=============================================================================
\* Generated on Thu Oct 01 23:43:43 UTC 2026