---- MODULE BimapAbsTrace ----
(* Abstract trace validator for C11: a bimap is a set of (key,value) pairs that
   is a partial bijection.  Keys are 1..NK, values 11..10+NV in the trace;
   obs.<name> holds, after every call, the answers of the whole public API for
   both bimap values. *)
EXTENDS TraceLib, FiniteSets
CONSTANT Gate
VARIABLES bm, l
vars == <<bm, l>>
Ev == Trace[l]
Names == {"a", "b"}
Other(n) == IF n = "a" THEN "b" ELSE "a"
After(s, e) == CASE e.op = "Add" -> [s EXCEPT ![e.n] = {p \in @ : p[1] # e.k /\ p[2] # e.v} \cup {<<e.k, e.v>>}]
                 [] e.op = "RemoveForward" -> [s EXCEPT ![e.n] = {p \in @ : p[1] # e.k}]
                 [] e.op = "RemoveReverse" -> [s EXCEPT ![e.n] = {p \in @ : p[2] # e.v}]
                 [] e.op = "Clear" -> [s EXCEPT ![e.n] = {}]
                 [] e.op = "RangeDel" -> [s EXCEPT ![e.n] = {p \in @ : p[1] # e.k}]
                 [] e.op = "RangeAdd" -> [s EXCEPT ![e.n] = {p \in @ : p[1] # e.k /\ p[2] # e.v} \cup {<<e.k, e.v>>}]
                 [] e.op = "Clone" -> [s EXCEPT ![Other(e.n)] = s[e.n]]
                 [] OTHER -> s
\* "GetForward(k) = (v,true) exactly when GetReverse(v) = (k,true)"
C_Inverse(o) == /\ \A k \in 1..Len(o.fw) : o.fwok[k] => (o.fw[k] - 10 \in 1..Len(o.rv) /\ o.rvok[o.fw[k] - 10] /\ o.rv[o.fw[k] - 10] = k)
                /\ \A v \in 1..Len(o.rv) : o.rvok[v] => (o.rv[v] \in 1..Len(o.fw) /\ o.fwok[o.rv[v]] /\ o.fw[o.rv[v]] = v + 10)
\* lookups agree with the pair model ("Add(k,v) evicts any earlier pair that used key k or value v, removals delete the whole pair")
C_Model(P, o) == /\ \A k \in 1..Len(o.fw) : IF \E p \in P : p[1] = k THEN o.fwok[k] /\ <<k, o.fw[k]>> \in P ELSE ~o.fwok[k] /\ o.fw[k] = 0
                 /\ \A v \in 1..Len(o.rv) : IF \E p \in P : p[2] = v + 10 THEN o.rvok[v] /\ <<o.rv[v], v + 10>> \in P ELSE ~o.rvok[v] /\ o.rv[v] = 0
\* "ContainsForward/ContainsReverse agree with them"
C_Contains(o) == /\ \A k \in 1..Len(o.fw) : o.cf[k] = o.fwok[k]
                 /\ \A v \in 1..Len(o.rv) : o.cr[v] = o.rvok[v]
\* "Len is the number of such pairs"
C_Len(P, o) == o.len = Cardinality(P)
\* "Range visits every pair exactly once"
C_Range(P, o) == /\ Len(o.range) = Cardinality(P)
                 /\ {<<o.range[i][1], o.range[i][2]>> : i \in 1..Len(o.range)} = P
\* Range stops when its callback says so: asked to stop after the first pair it visits min(1,|P|) pairs
C_RangeStop(P, o) == o.stop1 = (IF P = {} THEN 0 ELSE 1)
\* single look-ups as calls of their own (used between changes with nothing else observed: what a Bimap may remember from one
\* look-up must not survive a change)
C_Probe(P, e) ==
  CASE e.op = "GetForward" -> IF \E p \in P : p[1] = e.k THEN e.pok /\ <<e.k, e.pr>> \in P ELSE ~e.pok /\ e.pr = 0
    [] e.op = "GetReverse" -> IF \E p \in P : p[2] = e.v THEN e.pok /\ <<e.pr, e.v>> \in P ELSE ~e.pok /\ e.pr = 0
    [] e.op = "ContainsForward" -> e.pok = (\E p \in P : p[1] = e.k)
    [] e.op = "ContainsReverse" -> e.pok = (\E p \in P : p[2] = e.v)
    [] OTHER -> TRUE
\* Range whose callback changes the bimap when it sees its first pair (before = pairs at the start, after = pairs at the end):
\* every pair shown existed before or exists after, none is shown twice, and every pair that was there throughout is shown
C_RangeMut(before, after, e) == e.op \in {"RangeDel", "RangeAdd"} =>
   LET V == {<<e.vis[i][1], e.vis[i][2]>> : i \in 1..Len(e.vis)} IN
   /\ Cardinality(V) = Len(e.vis) /\ V \subseteq before \cup after /\ (before \cap after) \subseteq V
C_NoPanic(e) == e.panic = ""
AllN(P, o) == C_Inverse(o) /\ C_Model(P, o) /\ C_Contains(o) /\ C_Len(P, o) /\ C_Range(P, o) /\ C_RangeStop(P, o)
\* (q: in large universes the whole API is read back only at chosen points; Len after every call)
All(s, e) == C_NoPanic(e) /\ C_Probe(s[e.n], e) /\ IF e.q THEN C_Len(s["a"], e.obs.a) /\ C_Len(s["b"], e.obs.b) ELSE AllN(s["a"], e.obs.a) /\ AllN(s["b"], e.obs.b)
TInit == bm = [n \in Names |-> {}] /\ l = 1
Reset == l <= Len(Trace) /\ Ev.op = "Reset" /\ l' = l + 1 /\ bm' = [n \in Names |-> {}] /\ (Gate => All(bm', Ev))
Step == /\ l <= Len(Trace) /\ Ev.op # "Reset" /\ l' = l + 1
        /\ bm' = After(bm, Ev)
        /\ (Gate => All(bm', Ev) /\ C_RangeMut(bm[Ev.n], bm'[Ev.n], Ev))
TSpec == TInit /\ [][Reset \/ Step]_vars
Obs == Trace[l - 1]
Chk == ~Gate /\ l > 1
I_NoPanic == Chk => C_NoPanic(Obs)
I_Inverse == (Chk /\ ~Obs.q) => C_Inverse(Obs.obs.a) /\ C_Inverse(Obs.obs.b)
I_Model == (Chk /\ ~Obs.q) => C_Model(bm["a"], Obs.obs.a) /\ C_Model(bm["b"], Obs.obs.b)
I_Contains == (Chk /\ ~Obs.q) => C_Contains(Obs.obs.a) /\ C_Contains(Obs.obs.b)
I_Len == Chk => C_Len(bm["a"], Obs.obs.a) /\ C_Len(bm["b"], Obs.obs.b)
I_Range == (Chk /\ ~Obs.q) => C_Range(bm["a"], Obs.obs.a) /\ C_Range(bm["b"], Obs.obs.b)
I_Probe == Chk /\ Obs.op # "Reset" => C_Probe(bm[Obs.n], Obs)
I_RangeStop == (Chk /\ ~Obs.q) => C_RangeStop(bm["a"], Obs.obs.a) /\ C_RangeStop(bm["b"], Obs.obs.b)
Track == TrackL(l)
Accepted == AcceptedP
====
