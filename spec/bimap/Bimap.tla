---- MODULE Bimap ----
(* Implementation-level model of maps.Bimap (C11): two Go maps kept in step.
   Add is transcribed statement by statement (two stale-entry deletions, then
   two insertions); two bimap values "a" and "b" exist so that Clone
   independence is a state property.  0 encodes "no entry". *)
EXTENDS Integers, FiniteSets, TLC, Json
CONSTANTS Keys, Vals
VARIABLES fwd, rev, pairs, last
vars == <<fwd, rev, pairs, last>>
Names == {"a", "b"}
NoF == [k \in Keys |-> 0]
NoR == [v \in Vals |-> 0]
Op(o, n, k, v) == [op |-> o, n |-> n, k |-> k, v |-> v]
Init == /\ fwd = [n \in Names |-> NoF] /\ rev = [n \in Names |-> NoR]
        /\ pairs = [n \in Names |-> {}] /\ last = Op("Reset", "a", 0, 0)
Add(n, k, v) ==
  LET r1 == IF fwd[n][k] # 0 THEN [rev[n] EXCEPT ![fwd[n][k]] = 0] ELSE rev[n]   \* delete(b.reverse, oldVal)
      f1 == IF r1[v] # 0 THEN [fwd[n] EXCEPT ![r1[v]] = 0] ELSE fwd[n]            \* delete(b.forward, oldKey)
  IN /\ fwd' = [fwd EXCEPT ![n] = [f1 EXCEPT ![k] = v]]
     /\ rev' = [rev EXCEPT ![n] = [r1 EXCEPT ![v] = k]]
     /\ pairs' = [pairs EXCEPT ![n] = {p \in @ : p[1] # k /\ p[2] # v} \cup {<<k, v>>}]
     /\ last' = Op("Add", n, k, v)
RemoveForward(n, k) ==
  /\ IF fwd[n][k] # 0 THEN /\ rev' = [rev EXCEPT ![n][fwd[n][k]] = 0] /\ fwd' = [fwd EXCEPT ![n][k] = 0]
     ELSE UNCHANGED <<fwd, rev>>
  /\ pairs' = [pairs EXCEPT ![n] = {p \in @ : p[1] # k}]
  /\ last' = Op("RemoveForward", n, k, 0)
RemoveReverse(n, v) ==
  /\ IF rev[n][v] # 0 THEN /\ fwd' = [fwd EXCEPT ![n][rev[n][v]] = 0] /\ rev' = [rev EXCEPT ![n][v] = 0]
     ELSE UNCHANGED <<fwd, rev>>
  /\ pairs' = [pairs EXCEPT ![n] = {p \in @ : p[2] # v}]
  /\ last' = Op("RemoveReverse", n, 0, v)
Clear(n) == /\ fwd' = [fwd EXCEPT ![n] = NoF] /\ rev' = [rev EXCEPT ![n] = NoR]
            /\ pairs' = [pairs EXCEPT ![n] = {}] /\ last' = Op("Clear", n, 0, 0)
\* the other bimap value becomes Clone() of n
Other(n) == IF n = "a" THEN "b" ELSE "a"
Clone(n) == /\ fwd' = [fwd EXCEPT ![Other(n)] = fwd[n]] /\ rev' = [rev EXCEPT ![Other(n)] = rev[n]]
            /\ pairs' = [pairs EXCEPT ![Other(n)] = pairs[n]] /\ last' = Op("Clone", n, 0, 0)
Next == \E n \in Names : \/ Clear(n) \/ Clone(n)
                          \/ (\E k \in Keys : RemoveForward(n, k) \/ \E v \in Vals : Add(n, k, v))
                          \/ (\E v \in Vals : RemoveReverse(n, v))
Spec == Init /\ [][Next]_vars
\* ---- the property on the model ----
Inverse == \A n \in Names : /\ \A k \in Keys : fwd[n][k] # 0 => rev[n][fwd[n][k]] = k
                            /\ \A v \in Vals : rev[n][v] # 0 => fwd[n][rev[n][v]] = v
Refines == \A n \in Names : pairs[n] = {<<k, fwd[n][k]>> : k \in {x \in Keys : fwd[n][x] # 0}}
Bijection == \A n \in Names : \A p, q \in pairs[n] : (p[1] = q[1] \/ p[2] = q[2]) => p = q
KS == CHOOSE s \in [1..Cardinality(Keys) -> Keys] : \A i, j \in 1..Cardinality(Keys) : i < j => s[i] < s[j]
FwSeq(f) == [i \in 1..Cardinality(Keys) |-> f[KS[i]]]
View == <<fwd, rev>>
LogEdge == PrintT(<<"E", ToJson([f |-> <<FwSeq(fwd["a"]), FwSeq(fwd["b"])>>, t |-> <<FwSeq(fwd'["a"]), FwSeq(fwd'["b"])>>,
             op |-> [op |-> last'.op, n |-> last'.n, k |-> last'.k, v |-> last'.v,
                     x |-> [a |-> FwSeq(fwd'["a"]), b |-> FwSeq(fwd'["b"])]]])>>)
====
