package main

import (
	"context"
	"fmt"
	"math"
	"os"
	"runtime"
	"strings"
	"sync"
	"time"

	"gopkg.in/typ.v4/chans"
)

// C19: channel helpers.  One plan line = one scenario on real channels.
// queued: {"op":"RecvQueued"|"RecvQueuedFull","cap","fill","closed","limit","pending"}
// timed:  {"op":"SendTimeout"|"SendContext"|"RecvTimeout"|"RecvContext","cap","fill","closed","dl","peer"}
//
//	dl:   "zero" (timeout 0) | "neg" (timeout -1) | "short" (30ms) | "long" (2s) | "pre" (context cancelled before) |
//	      "post" (cancelled after 30ms) | "never" (background context)
//	peer: "none" | "ready" (already waiting on the other side) | "later" (arrives after 30ms; 1s when the deadline is short)
func init() { comps["chans"] = driveChans }

func drain(ch chan int) []int {
	out := []int{}
	for {
		select {
		case v, ok := <-ch:
			if !ok {
				return out
			}
			out = append(out, v)
		default:
			return out
		}
	}
}

func driveChans(plan []M, out *Out, _ []string) {
	for _, c := range plan {
		// Expected outcomes of the timed scenarios rely on margins of real time (a 30 ms deadline against a peer that arrives after
		// a second, ...).  If the heartbeat shows that the process stalled while a scenario ran, it is run again; a scenario
		// that stalled every time is recorded as such and judged by nothing.
		var e M
		for attempt := 0; attempt < 5; attempt++ {
			stallReset()
			e = chanScenario(c)
			e["stalled"] = false
			if stallMax() < 250*time.Millisecond || str(c, "op") == "SendDeadlineRace" {
				break
			}
			e["stalled"] = true
			if os.Getenv("VERIF_DEBUG") != "" {
				fmt.Fprintln(os.Stderr, "stall", stallMax(), str(c, "op"))
			}
		}
		out.Emit(e)
	}
}

func chanScenario(c M) M {
	{
		op, cp, fill, closed, limit := str(c, "op"), num(c, "cap"), num(c, "fill"), boolean(c, "closed"), num(c, "limit")
		reallimit := limit
		if h, ok := c["huge"]; ok { // limits at the top of the int range; written as 2^30 in the trace (TLC integers are 32-bit)
			reallimit = []int{math.MaxInt, math.MaxInt - 1, math.MaxInt / 2}[int(h.(float64))%3]
			limit = 1 << 30
		}
		dl, peer, pending := str(c, "dl"), str(c, "peer"), num(c, "pending")
		e := M{"op": op, "cap": cp, "fill": fill, "closed": closed, "limit": limit, "dl": dl, "peer": peer, "pending": pending,
			"got": []int{}, "rest": []int{}, "n": 0, "bufafter": []int{}, "blocked": false, "ok": false, "v": 0, "early": false,
			"peergot": []int{}, "peersent": false}
		ch := make(chan int, cp)
		for i := 1; i <= fill; i++ {
			ch <- i
		}
		if op == "SendDeadlineRace" {
			// rounds of SendTimeout(3ms) on an unbuffered channel whose receiver takes the value right around the deadline (offset
			// swept), while background goroutines keep every processor busy so that the sender is not rescheduled at once.
			// "returns true exactly when the value was handed to the channel": per round the answer must equal what the receiver saw.
			rounds, bad, sent, early := num(c, "rounds"), 0, 0, 0
			stop := make(chan struct{})
			fast := boolean(c, "fast") // many short rounds on idle processors instead of few rounds on busy ones
			nspin := 2 * runtime.GOMAXPROCS(0)
			if fast {
				nspin = 0
			}
			for i := 0; i < nspin; i++ {
				go func() {
					x := 0
					for {
						select {
						case <-stop:
							return
						default:
							x++
						}
					}
				}()
			}
			for r := 0; r < rounds; r++ {
				rc := make(chan int)
				T := 3 * time.Millisecond
				off := time.Duration(r%41-25) * 20 * time.Microsecond // -500us .. +300us
				if fast {
					T = 80 * time.Microsecond
					off = time.Duration(r%41-25) * 2 * time.Microsecond // -50us .. +30us
				}
				got := make(chan bool, 1)
				t0 := time.Now()
				go func() {
					for time.Since(t0) < T+off {
					}
					end := t0.Add(T + 2*time.Millisecond)
					if fast {
						end = t0.Add(T + 100*time.Microsecond)
					}
					for time.Now().Before(end) {
						select {
						case <-rc:
							got <- true
							return
						default:
						}
					}
					got <- false
				}()
				ok := chans.SendTimeout(rc, r, T)
				g := <-got
				if ok {
					sent++
				}
				if ok != g {
					bad++
				}
				// right after a call that ended at its deadline: calls with a non-positive timeout, which must wait for their peer
				// however long it takes (whatever the timed call left behind must not make them give up)
				c2 := make(chan int)
				lag := 200 * time.Microsecond
				if fast {
					lag = 20 * time.Microsecond
				}
				go func() { time.Sleep(lag); c2 <- 7 }()
				if v, ok2 := chans.RecvTimeout(c2, 0); !ok2 || v != 7 {
					early++
				}
				c3 := make(chan int)
				got3 := make(chan int, 1)
				go func() { time.Sleep(lag); got3 <- <-c3 }()
				if ok3 := chans.SendTimeout(c3, 8, -1); !ok3 {
					early++
					select {
					case c3 <- 8: // release the receiver
					case <-time.After(time.Millisecond):
					}
				} else if <-got3 != 8 {
					early++
				}
			}
			close(stop)
			e["n"], e["limit"], e["pending"], e["fill"] = rounds, sent, bad, early
			e["panic"] = ""
			return e
		}
		if op == "RecvCloseRace" {
			// an empty open channel, one RecvTimeout(3ms) caller, and a goroutine that closes the channel right around that
			// deadline (offset swept over the rounds): whatever wins, the answer is (zero, false)
			off := time.Duration(num(c, "offus")) * time.Microsecond
			res := make(chan [2]int, 1)
			go func() {
				v, ok := chans.RecvTimeout(ch, 3*time.Millisecond)
				b := 0
				if ok {
					b = 1
				}
				res <- [2]int{v, b}
			}()
			time.Sleep(3*time.Millisecond + off)
			close(ch)
			if r, ok := patientRecv(res, 2*time.Second); ok {
				e["v"], e["ok"] = r[0], r[1] == 1
			} else {
				e["blocked"] = true
			}
			e["panic"] = ""
			return e
		}
		if op == "RecvRace" || op == "SendRace" {
			// n callers released together on one channel: RecvRace: `fill` values queued (channel closed or open), every caller
			// RecvTimeout(5ms); SendRace: `fill` of `cap` slots taken, every caller SendTimeout(value 100+i, 5ms), nobody receives.
			n := num(c, "n")
			if closed {
				close(ch)
			}
			type res struct {
				v  int
				ok bool
			}
			results := make([]res, n)
			finished := make([]bool, n)
			var wg sync.WaitGroup
			start := make(chan struct{})
			for i := 0; i < n; i++ {
				wg.Add(1)
				go func(i int) {
					defer wg.Done()
					<-start
					if op == "RecvRace" {
						results[i].v, results[i].ok = chans.RecvTimeout(ch, 5*time.Millisecond)
					} else {
						results[i].v, results[i].ok = 100+i, chans.SendTimeout(ch, 100+i, 5*time.Millisecond)
					}
					finished[i] = true
				}(i)
			}
			close(start)
			done := make(chan struct{})
			go func() { wg.Wait(); close(done) }()
			blocked := 0
			if _, ok := patientRecv(done, 2*time.Second); !ok {
				for i := range finished {
					if !finished[i] {
						blocked++
					}
				}
			}
			vs, oks := []int{}, []bool{}
			if blocked == 0 {
				for _, r := range results {
					vs, oks = append(vs, r.v), append(oks, r.ok)
				}
				e["rest"] = drain(ch)
			}
			e["n"], e["vs"], e["oks"], e["nblocked"], e["panic"] = n, vs, oks, blocked, ""
			return e
		}
		if op == "RecvQueued" || op == "RecvQueuedFull" {
			stop := make(chan struct{})
			sentCount := make(chan int, pending)
			for p := 1; p <= pending; p++ { // senders parked on a full / unbuffered channel
				go func(v int) {
					select {
					case ch <- v:
						sentCount <- v
					case <-stop:
					}
				}(fill + p)
			}
			if pending > 0 {
				waitParked("chanScenario", pending, 3*time.Second)
			}
			if closed {
				close(ch)
			}
			done := make(chan struct{})
			e["panic"] = ""
			go func() {
				defer close(done)
				e["panic"] = protect(func() {
					if op == "RecvQueued" {
						e["got"] = nz(chans.RecvQueued(ch, reallimit))
					} else {
						buf := make([]int, limit)
						for i := range buf {
							buf[i] = -7
						}
						n := chans.RecvQueuedFull(ch, buf)
						e["n"], e["bufafter"] = n, buf
						if n >= 0 && n <= len(buf) {
							e["got"] = append([]int{}, buf[:n]...)
						}
					}
				})
			}()
			if _, ok := patientRecv(done, 5*time.Second); !ok {
				e["blocked"] = true
			}
			if pending > 0 {
				time.Sleep(10 * time.Millisecond)
			}
			close(stop)
			if !e["blocked"].(bool) {
				e["rest"] = drain(ch)
			}
			return e
		}
		// ---- timed helpers ----
		if closed {
			close(ch)
		}
		isSend := op == "SendTimeout" || op == "SendContext"
		lateDelay := 30 * time.Millisecond
		if dl == "short" {
			lateDelay = 1000 * time.Millisecond
		}
		peerGot := make(chan int, 4)
		peerSent := make(chan bool, 1)
		stop := make(chan struct{})
		startPeer := func(delay time.Duration) {
			go func() {
				if delay > 0 {
					select {
					case <-time.After(delay):
					case <-stop:
						return
					}
				}
				if isSend {
					select {
					case v, ok := <-ch:
						if ok {
							peerGot <- v
						}
					case <-stop:
					}
				} else {
					select {
					case ch <- 8:
						peerSent <- true
					case <-stop:
					}
				}
			}()
		}
		if peer == "ready" {
			startPeer(0)
			waitParked("chanScenario", 1, 3*time.Second) // until the peer really waits on the channel (state read from the runtime)
		} else if peer == "later" {
			startPeer(lateDelay)
		}
		var timeout time.Duration
		ctx, cancel := context.Background(), func() {}
		switch dl {
		case "neg":
			timeout = -1
		case "short":
			timeout = 30 * time.Millisecond
		case "long":
			timeout = 2 * time.Second
		case "pre":
			ctx, cancel = context.WithCancel(context.Background())
			cancel()
		case "post":
			ctx, cancel = context.WithTimeout(context.Background(), 30*time.Millisecond)
		}
		done := make(chan struct{})
		go func() {
			defer close(done)
			e["panic"] = protect(func() {
				switch op {
				case "SendTimeout":
					e["ok"] = chans.SendTimeout(ch, 9, timeout)
				case "SendContext":
					e["ok"] = chans.SendContext(ctx, ch, 9)
				case "RecvTimeout":
					e["v"], e["ok"] = chans.RecvTimeout(ch, timeout)
				case "RecvContext":
					e["v"], e["ok"] = chans.RecvContext(ctx, (<-chan int)(ch))
				}
			})
		}()
		// a call that has to wait without limit must still be waiting after 200ms; then a peer is provided so that it can finish
		unlimited := (dl == "zero" || dl == "neg" || dl == "never") && peer == "none"
		if unlimited {
			select {
			case <-done:
				e["early"] = true
			case <-time.After(200 * time.Millisecond):
				startPeer(0)
			}
		}
		if _, ok := patientRecv(done, 8*time.Second); !ok {
			e["blocked"] = true
		}
		cancel()
		time.Sleep(5 * time.Millisecond)
		close(stop)
		time.Sleep(2 * time.Millisecond)
		pg := []int{}
		for {
			select {
			case v := <-peerGot:
				pg = append(pg, v)
				continue
			default:
			}
			break
		}
		e["peergot"] = pg
		select {
		case <-peerSent:
			e["peersent"] = true
		default:
		}
		if !closed {
			e["rest"] = drain(ch)
		} else {
			e["rest"] = drain(ch)
		}
		if _, ok := e["panic"]; !ok {
			e["panic"] = ""
		}
		return e
	}
}

// waitParked waits until at least n goroutines whose stack mentions fn are parked in a channel operation or select
// (goroutine states as printed by the runtime); no sleeping on a guess.
func waitParked(fn string, n int, max time.Duration) bool {
	deadline := time.Now().Add(max)
	buf := make([]byte, 1<<20)
	for time.Now().Before(deadline) {
		m := runtime.Stack(buf, true)
		cnt := 0
		for _, g := range strings.Split(string(buf[:m]), "\n\n") {
			hdr := g
			if i := strings.IndexByte(g, '\n'); i >= 0 {
				hdr = g[:i]
			}
			if strings.Contains(g, fn) && (strings.Contains(hdr, "[chan send") || strings.Contains(hdr, "[chan receive") || strings.Contains(hdr, "[select")) {
				cnt++
			}
		}
		if cnt >= n {
			return true
		}
		time.Sleep(time.Millisecond)
	}
	return false
}
