package main

import (
	"encoding/json"
	"math/rand"
	"time"

	"gopkg.in/typ.v4/sync2"
)

// C04: sync2.Map[int,int] under the controlled scheduler.
// Plan lines: {"setup":[calls], "progs":[[calls],...], "mode":"dfs"|"random"|"schedule",
//
//	"n":max executions, "seed":.., "schedule":[choices], "fine":how many executions get a fine trace,
//	"keys":[..]}   call = {"op","k","v"}
//
// Output: for every execution a line {"ev":"reset",...}, then its events; fine events carry the
// projection of the map's internal state (taken while all threads are parked).
func init() { comps["syncmap"] = driveSyncMap }

// The trace speaks in ids: key ids 1, 2, 3 and value ids > 0 (0 = "no value").  The Go keys and values behind them are shifted
// so that the ZERO values of both types are in play: key id k is the Go key k-1, value id v is the Go value v-11 (value id 11,
// the first value stored by goroutine 1, is the Go zero value).  "absent" answers come with ok = false and are written as id 0.
func mapKey(id int) int  { return id - 1 }
func mapVal(id int) int  { return id - 11 }
func mapValID(v int) int { return v + 11 }
func mapRet(v int, ok bool, stored bool) int {
	if !ok && !stored {
		return 0
	}
	return mapValID(v)
}

func mapCall(m *sync2.Map[int, int], c M) Call {
	op, k, v := str(c, "op"), num(c, "k"), num(c, "v")
	return Call{Desc: M{"op": op, "k": k, "v": v}, Fn: func() M {
		r := M{"rv": 0, "rok": false, "rep": []int{}}
		switch op {
		case "Load":
			x, ok := m.Load(mapKey(k))
			r["rv"], r["rok"] = mapRet(x, ok, false), ok
		case "Store":
			m.Store(mapKey(k), mapVal(v))
		case "LoadOrStore":
			x, loaded := m.LoadOrStore(mapKey(k), mapVal(v))
			r["rv"], r["rok"] = mapRet(x, loaded, true), loaded // not loaded: the value just stored comes back
		case "LoadAndDelete":
			x, ok := m.LoadAndDelete(mapKey(k))
			r["rv"], r["rok"] = mapRet(x, ok, false), ok
		case "Delete":
			m.Delete(mapKey(k))
		case "Range":
			rep := []int{} // callbacks in order: k1,v1,k2,v2...
			m.Range(func(k, v int) bool { rep = append(rep, k+1, mapValID(v)); return true })
			r["rep"] = rep
		}
		return r
	}}
}

func calls(m *sync2.Map[int, int], v any) []Call {
	a, _ := v.([]any)
	out := []Call{}
	for _, x := range a {
		out = append(out, mapCall(m, x.(M)))
	}
	return out
}

// world is one fresh object under test plus the ways to call, project and read it back.
type world struct {
	calls          func(v any) []Call
	snap           func(s *Sched, e M) M // add the projected internal state (fine traces); may be nil
	final          func() []M            // sequential read-back after quiescence, as "final" events
	stepTO, freeTO time.Duration         // watchdog overrides (0: defaults)
}

func driveSyncMap(plan []M, out *Out, _ []string) {
	driveWorld(plan, out, func(p M) *world {
		m := &sync2.Map[int, int]{}
		keys := ints(p, "keys")
		gokeys := make([]int, len(keys))
		for i, k := range keys {
			gokeys[i] = mapKey(k)
		}
		return &world{
			calls: func(v any) []Call { return calls(m, v) },
			snap: func(s *Sched, e M) M {
				sn := sync2.VerifSnapshot(m, gokeys, mapValID)
				e["r"], e["d"], e["am"], e["dn"], e["ms"], e["mu"] = nz(sn.R), nz(sn.D), sn.Amended, sn.DirtyNil, sn.Misses, s.MutexOwner(sync2.VerifMapMutex(m))
				return e
			},
			final: func() []M {
				// sequential epilogue after quiescence: read everything back, store a fresh value under every key, enumerate (which
				// promotes the dirty map), read again, store again, enumerate, read again -- latent damage to the internal state
				// (an entry missing from the dirty map, a stale read map) turns into a lost or resurrected value here
				evs := []M{}
				loads := func() {
					for _, k := range keys {
						v, ok := m.Load(mapKey(k))
						evs = append(evs, M{"ev": "final", "op": "Load", "k": k, "v": 0, "rv": mapRet(v, ok, false), "rok": ok})
					}
				}
				rng := func() {
					rep := []int{}
					m.Range(func(k, v int) bool { rep = append(rep, k+1, mapValID(v)); return true })
					evs = append(evs, M{"ev": "final", "op": "Range", "k": 0, "v": 0, "rv": 0, "rok": false, "rep": rep})
				}
				stores := func(base int) {
					for _, k := range keys {
						m.Store(mapKey(k), mapVal(base+k))
						evs = append(evs, M{"ev": "final", "op": "Store", "k": k, "v": base + k, "rv": 0, "rok": false})
					}
				}
				if num(p, "epi") == 1 {
					// stores first: a store that lands only in a read-map entry whose key is missing from the dirty map is
					// lost by the next promotion -- and a Load miss would already promote
					stores(900)
					loads()
					rng()
					loads()
					return evs
				}
				loads()
				stores(900)
				rng()
				loads()
				stores(950) // and once more after the promotion
				rng()
				loads()
				return evs
			},
		}
	})
}

func driveWorld(plan []M, out *Out, mk func(p M) *world) {
	seen := map[string]bool{} // identical histories are reported once (a projection, not a judgement)
	total, dup, deadlocks := 0, 0, 0
	defer func() { out.Emit(M{"ev": "summary", "executions": total, "duplicate_histories": dup}) }()
	stuckN := 0
	for pi, p := range plan {
		stuckP := stuckN
		out.Journal(M{"ev": "begin", "plan": pi})
		mode, maxN, fine := str(p, "mode"), num(p, "n"), num(p, "fine")
		rng := rand.New(rand.NewSource(int64(num(p, "seed"))))
		var prefix []int
		if mode == "schedule" {
			prefix = ints(p, "schedule")
		}
		for ex := 0; maxN == 0 || ex < maxN; ex++ {
			w := mk(p)
			s := NewSched()
			if w.stepTO > 0 {
				s.StepTO, s.FreeTO = w.stepTO, w.freeTO
			}
			emitFine := ex < fine && w.snap != nil
			var evs []M
			free := false
			emit := func(e M) {
				if out.full {
					out.Journal(merge(M{"plan": pi, "ex": ex}, e))
				}
				if e["ev"] == "freemode" {
					free = true
				}
				if e["ev"] == "stuck" {
					stuckN++
				}
				if !free && emitFine {
					e = w.snap(s, e)
				}
				evs = append(evs, e)
			}
			emit(M{"ev": "reset", "plan": pi, "ex": ex, "t": 0, "site": "", "to": ""})
			choose := boundedChooser(mode, prefix, rng, num(p, "preempt"))
			var info ExecInfo
			setup := w.calls(p["setup"])
			if len(setup) > 0 {
				var si ExecInfo
				s.RunThreads([]int{9}, [][]Call{setup}, func(n int, _ bool) (int, int) { return 0, n }, emit, &si)
				info.Free = si.Free
				info.Deadlock = si.Deadlock
			}
			emit(M{"ev": "endsetup", "t": 0, "site": "", "to": ""})
			if !info.Deadlock {
				pl, _ := p["progs"].([]any)
				progs := [][]Call{}
				ids := []int{}
				for i, x := range pl {
					progs = append(progs, w.calls(x))
					ids = append(ids, i+1)
				}
				free0 := info.Free
				info = ExecInfo{}
				s2 := s
				if free0 {
					s2 = NewSched()
				}
				s2.RunThreads(ids, progs, choose, emit, &info)
			}
			// final sequential read-back after quiescence: Load of every key and a Range
			if !info.Deadlock && w.final != nil {
				evs = append(evs, w.final()...)
			}
			// one compact history line per execution; the fine trace only where asked for
			h := []M{}
			for _, e := range evs {
				switch {
				case e["ev"] == "inv":
					x := M{"ev": "inv", "t": e["t"], "op": e["op"], "k": e["k"], "v": e["v"]}
					if sv, ok := e["s"]; ok {
						x["s"] = sv
					}
					h = append(h, x)
				case e["ev"] == "ret", e["ev"] == "step" && e["to"] == "idle":
					h = append(h, M{"ev": "ret", "t": e["t"], "rv": e["rv"], "rok": e["rok"], "rep": e["rep"]})
				case e["ev"] == "final":
					x := M{"ev": "inv", "t": 9, "op": e["op"], "k": e["k"], "v": 0}
					if fv, ok := e["v"]; ok {
						x["v"] = fv
					}
					if sv, ok := e["s"]; ok {
						x["s"] = sv
					}
					h = append(h, x)
					rp := e["rep"]
					if rp == nil {
						rp = []int{}
					}
					h = append(h, M{"ev": "ret", "t": 9, "rv": e["rv"], "rok": e["rok"], "rep": rp})
				case e["ev"] == "deadlock":
					h = append(h, M{"ev": "deadlock"})
				case e["ev"] == "stuck":
					h = append(h, M{"ev": "stuck", "t": e["t"], "site": e["site"]})
				}
			}
			total++
			hb, _ := json.Marshal(h)
			if seen[string(hb)] && !(emitFine && !free) {
				dup++
			} else {
				seen[string(hb)] = true
				out.Emit(M{"ev": "hist", "plan": pi, "ex": ex, "free": free, "deadlock": info.Deadlock, "blocked": info.Blocked,
					"choices": nz(info.Choices), "h": h})
			}
			if emitFine && !free {
				for _, e := range evs {
					if e["ev"] != "final" {
						out.Emit(e)
					}
				}
			}
			if info.Deadlock {
				deadlocks++
			}
			if stuckN-stuckP >= 2 {
				break // this program keeps hitting the watchdog: move on to the next one
			}
			if deadlocks >= 3 || stuckN >= 40 {
				// every further schedule would cost seconds of watchdog time; what was recorded is enough for a verdict
				out.Emit(M{"ev": "aborted", "deadlocks": deadlocks, "stuck": stuckN})
				return
			}
			if mode == "dfs" {
				prefix = dfsNext(&info)
				if prefix == nil {
					break
				}
			} else if mode == "schedule" {
				break
			}
		}
	}
}

// boundedChooser follows the schedule prefix, then continues the running thread (dfs / schedule) or picks at
// random.  With bound > 0 only schedules with at most that many preemptions are enumerated: once the bound is
// used up a still-enabled thread is never switched away from.
func boundedChooser(mode string, prefix []int, rng *rand.Rand, bound int) Chooser {
	pos, used := 0, 0
	return func(n int, cont bool) (int, int) {
		defer func() { pos++ }()
		branch := n
		if bound > 0 && cont && used >= bound {
			branch = 1
		}
		c := 0
		switch {
		case pos < len(prefix):
			c = prefix[pos]
		case mode == "random":
			c = rng.Intn(branch)
		}
		if c >= branch {
			c = 0
		}
		if cont && c != 0 {
			used++
		}
		return c, branch
	}
}
