package main

import (
	"math/rand"

	"gopkg.in/typ.v4/slices"
)

// C15: sorting, searching, shuffling.
func init() { comps["sortsearch"] = driveSort }

func driveSort(plan []M, out *Out, _ []string) {
	for _, c := range plan {
		op, t, d := str(c, "op"), num(c, "t"), num(c, "d")
		if d == 0 {
			d = 10
		}
		s0 := ints(c, "s")
		s := append([]int{}, s0...)
		e := M{"op": op, "t": t, "d": d, "s": s0, "ri": 0}
		less := func(a, b int) bool { return a/d < b/d }
		res2 := []int{}
		e["panic"] = protect(func() {
			switch op {
			case "Sort":
				slices.Sort(s)
			case "SortDesc":
				slices.SortDesc(s)
			case "SortFunc":
				slices.SortFunc(s, less)
			case "SortDescFunc":
				slices.SortDescFunc(s, less)
			case "SortStableFunc":
				slices.SortStableFunc(s, less)
			case "SortStableDescFunc":
				slices.SortStableDescFunc(s, less)
			case "BinarySearch":
				e["ri"] = slices.BinarySearch(s, t)
			case "BinarySearchFunc":
				e["ri"] = slices.BinarySearchFunc(s, func(a int) bool { return a < t })
			case "Shuffle":
				slices.Shuffle(s)
			case "ShuffleRand":
				slices.ShuffleRand(s, rand.New(rand.NewSource(int64(t))))
				r2 := append([]int{}, s0...)
				slices.ShuffleRand(r2, rand.New(rand.NewSource(int64(t))))
				res2 = r2
			}
		})
		e["res"], e["res2"] = s, res2
		out.Emit(e)
	}
}
