package main

import (
	"fmt"
	"math/rand"

	"gopkg.in/typ.v4/slices"
)

// C15: sorting, searching, shuffling.
func init() { comps["sortsearch"] = driveSort }

func driveSort(plan []M, out *Out, _ []string) {
	for _, c := range plan {
		op, t, d := str(c, "op"), num(c, "t"), num(c, "d")
		if d == 0 {
			d = 10
		}
		if op == "BigSort" {
			bigSort(c, out)
			continue
		}
		if ty := str(c, "ty"); ty != "" {
			typedSort(c, ty, out)
			continue
		}
		s0 := ints(c, "s")
		s := append([]int{}, s0...)
		e := M{"op": op, "t": t, "d": d, "s": s0, "ri": 0}
		less := func(a, b int) bool { return a/d < b/d }
		res2 := []int{}
		e["panic"] = protect(func() {
			switch op {
			case "Sort":
				slices.Sort(s)
			case "SortDesc":
				slices.SortDesc(s)
			case "SortFunc":
				slices.SortFunc(s, less)
			case "SortDescFunc":
				slices.SortDescFunc(s, less)
			case "SortStableFunc":
				slices.SortStableFunc(s, less)
			case "SortStableDescFunc":
				slices.SortStableDescFunc(s, less)
			case "BinarySearch":
				e["ri"] = slices.BinarySearch(s, t)
			case "BinarySearchFunc":
				e["ri"] = slices.BinarySearchFunc(s, func(a int) bool { return a < t })
			case "Shuffle":
				slices.Shuffle(s)
			case "ShuffleRand":
				slices.ShuffleRand(s, rand.New(rand.NewSource(int64(t))))
				r2 := append([]int{}, s0...)
				slices.ShuffleRand(r2, rand.New(rand.NewSource(int64(t))))
				res2 = r2
			}
		})
		e["res"], e["res2"] = s, res2
		out.Emit(e)
	}
}

// Sort / SortDesc / BinarySearch on other ordered element types; the ids of the plan (0..255) are mapped monotonically:
// int8 id-128 (id 0 is the type's minimum), uint8 id, float64 id/4-10, string "%04d".  Results are mapped back.
func typedSort(c M, ty string, out *Out) {
	switch ty {
	case "int8":
		typedSortT(c, out, func(v int) int8 { return int8(v - 128) }, func(x int8) int { return int(x) + 128 })
	case "uint8":
		typedSortT(c, out, func(v int) uint8 { return uint8(v) }, func(x uint8) int { return int(x) })
	case "nulstr": // strings that differ only by trailing NUL bytes: id 4p+k = prefix p followed by k NULs (monotone in id)
		pre := []string{"a", "ab", "name", "namf", "z"}
		typedSortT(c, out, func(v int) string { return pre[(v/4)%5] + "\x00\x00\x00"[:v%4] }, func(x string) int {
			k := 0
			for len(x) > 0 && x[len(x)-1] == 0 {
				x, k = x[:len(x)-1], k+1
			}
			for p, q := range pre {
				if q == x {
					return 4*p + k
				}
			}
			return -1
		})
	case "float64":
		typedSortT(c, out, func(v int) float64 { return float64(v)/4 - 10 }, func(x float64) int { return int((x + 10) * 4) })
	default:
		typedSortT(c, out, func(v int) string { return fmt.Sprintf("%04d", v) }, func(x string) int {
			v := 0
			fmt.Sscanf(x, "%d", &v)
			return v
		})
	}
}

func typedSortT[T int8 | uint8 | float64 | string](c M, out *Out, to func(int) T, from func(T) int) {
	op, t, s0 := str(c, "op"), num(c, "t"), ints(c, "s")
	s := make([]T, len(s0))
	for i, v := range s0 {
		s[i] = to(v)
	}
	e := M{"op": op, "t": t, "d": 10, "s": s0, "ri": 0, "ty": str(c, "ty")}
	e["panic"] = protect(func() {
		switch op {
		case "Sort":
			slices.Sort(s)
		case "SortDesc":
			slices.SortDesc(s)
		case "BinarySearch":
			e["ri"] = slices.BinarySearch(s, to(t))
		}
	})
	res := []int{}
	for _, x := range s {
		res = append(res, from(x))
	}
	e["res"], e["res2"] = res, []int{}
	out.Emit(e)
}

// bigSort: thousands of elements given by a formula, the result logged losslessly as runs.
// input element i (0 <= i < n): key(i) = (i*a+b) mod m + 1; plain variants sort the keys, the Func variants sort key*d+i
// (d > n) with a less that looks at the key only.  Runs: plain [value, count]; stable Func variants [first element, step,
// count] for every maximal arithmetic progression inside one key; the other Func variants [key, count, sum of the tags].
func bigSort(c M, out *Out) {
	variant, n, a, b, m, d := str(c, "variant"), num(c, "n"), num(c, "a"), num(c, "b"), num(c, "m"), num(c, "d")
	e := M{"op": "BigSort", "variant": variant, "n": n, "a": a, "b": b, "m": m, "d": d}
	plain := variant == "Sort" || variant == "SortDesc"
	s := make([]int, n)
	for i := range s {
		k := (i*a+b)%m + 1
		if plain {
			s[i] = k
		} else {
			s[i] = k*d + i
		}
	}
	less := func(x, y int) bool { return x/d < y/d }
	e["panic"] = protect(func() {
		switch variant {
		case "Sort":
			slices.Sort(s)
		case "SortDesc":
			slices.SortDesc(s)
		case "SortFunc":
			slices.SortFunc(s, less)
		case "SortDescFunc":
			slices.SortDescFunc(s, less)
		case "SortStableFunc":
			slices.SortStableFunc(s, less)
		case "SortStableDescFunc":
			slices.SortStableDescFunc(s, less)
		}
	})
	runs := [][]int{}
	switch {
	case plain:
		for _, v := range s {
			if len(runs) > 0 && runs[len(runs)-1][0] == v {
				runs[len(runs)-1][1]++
			} else {
				runs = append(runs, []int{v, 1})
			}
		}
	case variant == "SortStableFunc" || variant == "SortStableDescFunc":
		for i, v := range s {
			if len(runs) > 0 {
				r := runs[len(runs)-1]
				sameKey := s[i-1]/d == v/d
				if sameKey && r[2] == 1 {
					r[1], r[2] = v-s[i-1], 2
					continue
				}
				if sameKey && v-s[i-1] == r[1] {
					r[2]++
					continue
				}
			}
			runs = append(runs, []int{v, 0, 1})
		}
	default:
		for _, v := range s {
			if len(runs) > 0 && runs[len(runs)-1][0] == v/d {
				runs[len(runs)-1][1]++
				runs[len(runs)-1][2] += v % d
			} else {
				runs = append(runs, []int{v / d, 1, v % d})
			}
		}
	}
	if len(runs) > 400 { // a badly wrong result: keep the line small, the length alone already rejects it
		runs = runs[:400]
	}
	e["runs"], e["len"] = runs, len(s)
	out.Emit(e)
}
