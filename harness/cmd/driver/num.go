package main

import (
	"errors"
	"math"
	"strconv"

	typ "gopkg.in/typ.v4"
)

// C20: numeric and utility helpers.
func init() { comps["num"] = driveNum }

func bigOfStr(s string) M {
	neg := false
	if len(s) > 0 && s[0] == '-' {
		neg, s = true, s[1:]
	}
	d := make([]int, len(s))
	for i, c := range s {
		d[i] = int(c - '0')
	}
	return M{"n": neg, "d": d}
}
func bigI(v int64) M  { return bigOfStr(strconv.FormatInt(v, 10)) }
func bigU(v uint64) M { return bigOfStr(strconv.FormatUint(v, 10)) }

type integer interface {
	~int8 | ~int16 | ~int32 | ~int64 | ~int | ~uint8 | ~uint16 | ~uint32 | ~uint64 | ~uint | ~uintptr
}

func toBig[T integer](v T, sg bool) M {
	if sg {
		return bigI(int64(v))
	}
	return bigU(uint64(v))
}

// run builder: the graph of f over [min,max] as maximal runs; lossless.
type runB[T integer] struct {
	from, to  T
	cOK, idOK bool
	negOK     bool
	c         T
	open      bool
	sg        bool
	runs      []M
}

func (b *runB[T]) close() {
	if !b.open {
		return
	}
	kind, c := "const", b.c
	if !b.cOK {
		if b.idOK {
			kind = "id"
		} else {
			kind = "neg"
		}
		c = 0
	}
	b.runs = append(b.runs, M{"from": toBig(b.from, b.sg), "to": toBig(b.to, b.sg), "kind": kind, "c": toBig(c, b.sg)})
	b.open = false
}

func (b *runB[T]) add(v, r T) {
	id, neg := r == v, b.sg && r == -v
	if b.open {
		c2, i2, n2 := b.cOK && b.c == r, b.idOK && id, b.negOK && neg
		if c2 || i2 || n2 {
			b.cOK, b.idOK, b.negOK, b.to = c2, i2, n2, v
			return
		}
		b.close()
	}
	b.open, b.from, b.to, b.c, b.cOK, b.idOK, b.negOK = true, v, v, r, true, id, neg
}

func tableOf[T integer](fn string, lo, hi T, sg bool, min, max T) []M {
	b := &runB[T]{sg: sg}
	for v := min; ; v++ {
		var r T
		switch fn {
		case "Digits10":
			r = T(typ.Digits10(v))
		case "DigitsSign10":
			r = T(typ.DigitsSign10(v))
		case "Abs":
			r = typ.Abs(v)
		case "Clamp01":
			r = typ.Clamp01(v)
		case "Clamp":
			r = typ.Clamp(v, lo, hi)
		}
		b.add(v, r)
		if v == max {
			break
		}
	}
	b.close()
	return b.runs
}

func pointOf[T integer](fn string, v, lo, hi T, sg bool) M {
	var r T
	switch fn {
	case "Digits10":
		r = T(typ.Digits10(v))
	case "DigitsSign10":
		r = T(typ.DigitsSign10(v))
	case "Abs":
		r = typ.Abs(v)
	case "Clamp01":
		r = typ.Clamp01(v)
	case "Clamp":
		r = typ.Clamp(v, lo, hi)
	}
	return toBig(r, sg)
}

func pairsOf[T integer](out *Out, ty string, bits int, sg bool, as, bs []int) {
	for _, a0 := range as {
		for _, b0 := range bs {
			a, b := T(a0), T(b0)
			e := M{"op": "pair", "ty": ty, "bits": bits, "sg": sg, "a": a0, "b": b0}
			e["panic"] = protect(func() {
				e["min"], e["max"] = int64(typ.Min(a, b)), int64(typ.Max(a, b))
				e["sum"], e["prod"] = int64(typ.Sum(a, b)), int64(typ.Product(a, b))
				e["cmp"], e["less"] = typ.Compare(a, b), typ.Less(a, b)
			})
			out.Emit(e)
		}
	}
}

func variOf[T integer](out *Out, ty string, bits int, sg bool, v0 []int) {
	v := make([]T, len(v0))
	for i := range v0 {
		v[i] = T(v0[i])
	}
	e := M{"op": "vari", "ty": ty, "bits": bits, "sg": sg, "v": v0, "min": 0, "max": 0}
	e["sum"], e["prod"] = int64(typ.Sum(v...)), int64(typ.Product(v...))
	p := protect(func() { e["min"], e["max"] = int64(typ.Min(v...)), int64(typ.Max(v...)) })
	if p != "" {
		p = "minmax"
	}
	e["panic"] = p
	out.Emit(e)
}

func rangeInts(lo, hi int) []int {
	r := make([]int, 0, hi-lo+1)
	for i := lo; i <= hi; i++ {
		r = append(r, i)
	}
	return r
}

type zeroer struct{ v int }

func (z zeroer) IsZero() bool { return z.v == 7 }

var floatSample = []float64{math.Inf(-1), -math.MaxFloat64, -1.5, -1, -0.5, -math.SmallestNonzeroFloat64, 0,
	math.SmallestNonzeroFloat64, 0.5, 1, 1.5, math.MaxFloat64, math.Inf(1)}
var float32Sample = []float32{float32(math.Inf(-1)), -math.MaxFloat32, -1.5, -1, -0.5, -math.SmallestNonzeroFloat32, 0,
	math.SmallestNonzeroFloat32, 0.5, 1, 1.5, math.MaxFloat32, float32(math.Inf(1))}
var stringSample = []string{"", "a", "ab", "b", "ba"}

// order-embedded samples of the word-sized integer types: the ends of the range and values more than half the range apart
var intSample = []int{math.MinInt, math.MinInt + 1, -(1 << 62), -(1 << 31), -1, 0, 1, 2, 1 << 31, 1 << 62, math.MaxInt - 1, math.MaxInt}
var int64Sample = []int64{math.MinInt64, math.MinInt64 + 1, -(1 << 62), -(1 << 31), -1, 0, 1, 2, 1 << 31, 1 << 62, math.MaxInt64 - 1, math.MaxInt64}
var int32Sample = []int32{math.MinInt32, math.MinInt32 + 1, -(1 << 30), -(1 << 15), -1, 0, 1, 2, 1 << 15, 1 << 30, math.MaxInt32 - 1, math.MaxInt32}
var uintSample = []uint{0, 1, 2, 1 << 31, 1 << 32, 1 << 62, 1 << 63, 1<<63 + 1, math.MaxUint - 1, math.MaxUint}
var uint64Sample = []uint64{0, 1, 2, 1 << 31, 1 << 32, 1 << 62, 1 << 63, 1<<63 + 1, math.MaxUint64 - 1, math.MaxUint64}

func rankOf[T comparable](s []T, v T) int {
	for i, x := range s {
		if x == v {
			return i
		}
	}
	return -1
}

func rankLine[T typ.Ordered](out *Out, ty string, s []T, a, b, c int, zero, one T, real bool, c01 func(T) T) {
	e := M{"op": "rank", "ty": ty, "a": a, "b": b, "c": c}
	e["panic"] = protect(func() {
		e["min"], e["max"] = rankOf(s, typ.Min(s[a], s[b], s[c])), rankOf(s, typ.Max(s[a], s[b], s[c]))
		lo, hi := typ.Min(s[b], s[c]), typ.Max(s[b], s[c])
		e["clamp"] = rankOf(s, typ.Clamp(s[a], lo, hi))
		e["cmp"], e["less"] = typ.Compare(s[a], s[b]), typ.Less(s[a], s[b])
		e["r0"], e["r1"], e["clamp01"] = -1, -1, -1
		if real {
			e["r0"], e["r1"] = rankOf(s, zero), rankOf(s, one)
			e["clamp01"] = rankOf(s, c01(s[a]))
		}
	})
	out.Emit(e)
}

func driveNum(plan []M, out *Out, _ []string) {
	for _, c := range plan {
		op, ty, fn := str(c, "op"), str(c, "ty"), str(c, "fn")
		switch op {
		case "pairs":
			as, bs := ints(c, "as"), ints(c, "bs")
			switch ty {
			case "int8":
				pairsOf[int8](out, ty, 8, true, as, bs)
			case "uint8":
				pairsOf[uint8](out, ty, 8, false, as, bs)
			case "int16":
				pairsOf[int16](out, ty, 16, true, as, bs)
			}
		case "vari":
			switch ty {
			case "int8":
				variOf[int8](out, ty, 8, true, ints(c, "v"))
			case "uint8":
				variOf[uint8](out, ty, 8, false, ints(c, "v"))
			case "int16":
				variOf[int16](out, ty, 16, true, ints(c, "v"))
			case "uint16":
				variOf[uint16](out, ty, 16, false, ints(c, "v"))
			}
		case "table":
			lo, hi := num(c, "lo"), num(c, "hi")
			e := M{"op": "table", "fn": fn, "ty": ty}
			e["panic"] = protect(func() {
				switch ty {
				case "int8":
					e["bits"], e["sg"], e["lo"], e["hi"] = 8, true, bigI(int64(lo)), bigI(int64(hi))
					e["runs"] = tableOf[int8](fn, int8(lo), int8(hi), true, math.MinInt8, math.MaxInt8)
				case "uint8":
					e["bits"], e["sg"], e["lo"], e["hi"] = 8, false, bigI(int64(lo)), bigI(int64(hi))
					e["runs"] = tableOf[uint8](fn, uint8(lo), uint8(hi), false, 0, math.MaxUint8)
				case "int16":
					e["bits"], e["sg"], e["lo"], e["hi"] = 16, true, bigI(int64(lo)), bigI(int64(hi))
					e["runs"] = tableOf[int16](fn, int16(lo), int16(hi), true, math.MinInt16, math.MaxInt16)
				case "uint16":
					e["bits"], e["sg"], e["lo"], e["hi"] = 16, false, bigI(int64(lo)), bigI(int64(hi))
					e["runs"] = tableOf[uint16](fn, uint16(lo), uint16(hi), false, 0, math.MaxUint16)
				case "int32":
					e["bits"], e["sg"], e["lo"], e["hi"] = 32, true, bigI(int64(lo)), bigI(int64(hi))
					e["runs"] = tableOf[int32](fn, int32(lo), int32(hi), true, math.MinInt32, math.MaxInt32)
				case "uint32":
					e["bits"], e["sg"], e["lo"], e["hi"] = 32, false, bigI(int64(lo)), bigI(int64(hi))
					e["runs"] = tableOf[uint32](fn, uint32(lo), uint32(hi), false, 0, math.MaxUint32)
				}
			})
			out.Emit(e)
		case "point":
			vs, los, his := str(c, "v"), str(c, "lo"), str(c, "hi")
			e := M{"op": "point", "fn": fn, "ty": ty, "v": bigOfStr(vs), "lo": bigOfStr(los), "hi": bigOfStr(his)}
			pi := func(s string) int64 { v, err := strconv.ParseInt(s, 10, 64); must(err); return v }
			pu := func(s string) uint64 { v, err := strconv.ParseUint(s, 10, 64); must(err); return v }
			e["panic"] = protect(func() {
				switch ty {
				case "int64":
					e["bits"], e["sg"], e["r"] = 64, true, pointOf(fn, pi(vs), pi(los), pi(his), true)
				case "int":
					e["bits"], e["sg"], e["r"] = 64, true, pointOf(fn, int(pi(vs)), int(pi(los)), int(pi(his)), true)
				case "uint64":
					e["bits"], e["sg"], e["r"] = 64, false, pointOf(fn, pu(vs), pu(los), pu(his), false)
				case "uint":
					e["bits"], e["sg"], e["r"] = 64, false, pointOf(fn, uint(pu(vs)), uint(pu(los)), uint(pu(his)), false)
				case "uintptr":
					e["bits"], e["sg"], e["r"] = 64, false, pointOf(fn, uintptr(pu(vs)), uintptr(pu(los)), uintptr(pu(his)), false)
				case "int32":
					e["bits"], e["sg"], e["r"] = 32, true, pointOf(fn, int32(pi(vs)), int32(pi(los)), int32(pi(his)), true)
				case "uint32":
					e["bits"], e["sg"], e["r"] = 32, false, pointOf(fn, uint32(pu(vs)), uint32(pu(los)), uint32(pu(his)), false)
				}
			})
			out.Emit(e)
		case "rank":
			a, b, cc := num(c, "a"), num(c, "b"), num(c, "c")
			switch ty {
			case "float64":
				rankLine(out, ty, floatSample, a, b, cc, 0, 1, true, typ.Clamp01[float64])
			case "float32":
				rankLine(out, ty, float32Sample, a, b, cc, 0, 1, true, typ.Clamp01[float32])
			case "string":
				rankLine(out, ty, stringSample, a, b, cc, "", "", false, nil)
			case "int":
				rankLine(out, ty, intSample, a, b, cc, 0, 0, false, nil)
			case "int64":
				rankLine(out, ty, int64Sample, a, b, cc, 0, 0, false, nil)
			case "int32":
				rankLine(out, ty, int32Sample, a, b, cc, 0, 0, false, nil)
			case "uint":
				rankLine(out, ty, uintSample, a, b, cc, 0, 0, false, nil)
			case "uint64":
				rankLine(out, ty, uint64Sample, a, b, cc, 0, 0, false, nil)
			}
		case "fsum":
			// floating-point / complex Sum and Product: the built-in + and * are the primitives of the definition, so the
			// left-to-right fold with the built-in operators is recorded next to the library's result (as IEEE bit patterns)
			idx := ints(c, "v")
			e := M{"op": "fsum", "ty": ty, "v": idx}
			e["panic"] = protect(func() {
				switch ty {
				case "float64":
					xs := make([]float64, len(idx))
					for i, j := range idx {
						xs[i] = fsumSample[j]
					}
					ls, lp := 0.0, 1.0
					for _, x := range xs {
						ls += x
						lp *= x
					}
					e["sum"], e["lrsum"] = bits64(typ.Sum(xs...)), bits64(ls)
					e["prod"], e["lrprod"] = bits64(typ.Product(xs...)), bits64(lp)
				case "float32":
					xs := make([]float32, len(idx))
					for i, j := range idx {
						xs[i] = float32(fsumSample[j])
					}
					var ls, lp float32 = 0, 1
					for _, x := range xs {
						ls += x
						lp *= x
					}
					e["sum"], e["lrsum"] = bits64(float64(typ.Sum(xs...))), bits64(float64(ls))
					e["prod"], e["lrprod"] = bits64(float64(typ.Product(xs...))), bits64(float64(lp))
				case "complex128":
					xs := make([]complex128, len(idx))
					for i, j := range idx {
						xs[i] = complex(fsumSample[j], fsumSample[(j+3)%len(fsumSample)])
					}
					var ls, lp complex128 = 0, 1
					for _, x := range xs {
						ls += x
						lp *= x
					}
					su, pr := typ.Sum(xs...), typ.Product(xs...)
					e["sum"], e["lrsum"] = append(bits64(real(su)), bits64(imag(su))...), append(bits64(real(ls)), bits64(imag(ls))...)
					e["prod"], e["lrprod"] = append(bits64(real(pr)), bits64(imag(pr))...), append(bits64(real(lp)), bits64(imag(lp))...)
				}
			})
			out.Emit(e)
		case "util":
			name, kind, v := str(c, "name"), str(c, "kind"), ints(c, "v")
			e := M{"op": "util", "name": name, "kind": kind, "v": v, "cond": boolean(c, "cond"), "r": 0, "rb": false}
			e["panic"] = protect(func() {
				switch name {
				case "Coal":
					if kind == "string" {
						ss := make([]string, len(v))
						for i, x := range v {
							if x != 0 {
								ss[i] = strconv.Itoa(x)
							}
						}
						if r := typ.Coal(ss...); r != "" {
							e["r"], _ = strconv.Atoi(r)
						}
					} else if kind == "zeroer" {
						// a type with an IsZero method that says "zero" for the non-zero value {7}: Coal goes by the zero VALUE
						zs := make([]zeroer, len(v))
						for i, x := range v {
							zs[i] = zeroer{x}
						}
						e["r"] = typ.Coal(zs...).v
					} else {
						e["r"] = typ.Coal(v...)
					}
				case "Tern":
					e["r"] = typ.Tern(boolean(c, "cond"), v[0], v[1])
				case "TernCast":
					e["r"] = typ.TernCast(boolean(c, "cond"), any(v[0]), v[1])
				case "Zero":
					e["r"] = typ.Zero[int]() + len(typ.Zero[string]())
				case "ZeroOf":
					e["r"] = typ.ZeroOf(v[0]) + len(typ.ZeroOf("x"))
				case "IsZero":
					switch kind {
					case "int":
						e["rb"] = typ.IsZero(v[0])
					case "string":
						s := ""
						if v[0] != 0 {
							s = "x"
						}
						e["rb"] = typ.IsZero(s)
					case "zeroer-true":
						e["rb"] = typ.IsZero(zeroer{7})
					case "zeroer-false":
						e["rb"] = typ.IsZero(zeroer{v[0]})
					case "zeroer-zero": // the zero value of a type whose IsZero method would say "false" for it
						e["rb"] = typ.IsZero(zeroer{})
					case "nilptr-zeroer": // a nil pointer to a type with a value-receiver IsZero method
						e["rb"] = typ.IsZero((*zeroer)(nil))
					case "ptr-zeroer": // non-nil pointer whose method says zero
						e["rb"] = typ.IsZero(&zeroer{7})
					}
				case "RefDeref":
					p, q := typ.Ref(v[0]), typ.Ref(v[0])
					e["r"], e["rb"] = *p, p != q
				case "DerefZero":
					if kind == "nil" {
						e["r"] = typ.DerefZero((*int)(nil))
					} else {
						x := v[0]
						e["r"] = typ.DerefZero(&x)
					}
				case "IsNil":
					switch kind {
					case "nil-any":
						e["rb"] = typ.IsNil[any](nil)
					case "nil-error":
						e["rb"] = typ.IsNil[error](nil)
					case "typed-nil-in-any":
						e["rb"] = typ.IsNil[any]((*int)(nil))
					case "value-in-any":
						e["rb"] = typ.IsNil[any](5)
					case "error-value":
						e["rb"] = typ.IsNil[error](errors.New("x"))
					}
				}
			})
			out.Emit(e)
		}
	}
}

func must(err error) {
	if err != nil {
		panic(err)
	}
}

// values whose sums round, cancel or overflow depending on the order of the additions (no NaN can arise from sums of
// these unless an infinity is produced first; lines whose reference fold is NaN are dropped by the plan generator)
var fsumSample = []float64{0, 1, -1, 1e16, -1e16, 0.1, 0.2, 0.3, 1e-16, math.MaxFloat64, -math.MaxFloat64, 3, 1e308, 0.5}

// bits64 splits an IEEE-754 bit pattern into four 16-bit pieces (TLC integers are 32-bit).
func bits64(f float64) []int {
	b := math.Float64bits(f)
	if f != f {
		return []int{-1, -1, -1, -1} // NaN: excluded by the property
	}
	return []int{int(b >> 48), int(b >> 32 & 0xffff), int(b >> 16 & 0xffff), int(b & 0xffff)}
}
