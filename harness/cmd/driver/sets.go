package main

import (
	"fmt"

	tmaps "gopkg.in/typ.v4/maps"
	"gopkg.in/typ.v4/sets"
	"gopkg.in/typ.v4/sync2"
)

// C03: the Set interface in both implementations.  One plan line = one scenario.
// {"nu":3, "a":{"kind":"maps"|"sync2","init":[..],"hist":[{"op","k"}..]}, "b":{...}, "same":bool, "op":..., "px":..,"py":..,"n":..,"vals":[..],"ctor":..}
func init() { comps["sets"] = driveSets }

func obsSet(s sets.Set[int], nu int) M {
	if s == nil {
		return M{"sl": []int{}, "len": 0, "has": make([]bool, nu), "rng": []int{}, "str": "{}"}
	}
	// Len first: every enumeration (and enough Has misses) re-organises the concurrent set's storage, so the order of
	// the observations matters for what state each one sees
	ln := s.Len()
	str := s.String()
	has := make([]bool, nu)
	for v := 1; v <= nu; v++ {
		has[v-1] = s.Has(v - 1) // element ids 1..nu in the trace are the Go values 0..nu-1: the zero value is a member like any other
	}
	rng := []int{}
	s.Range(func(v int) bool { rng = append(rng, v+1); return true })
	if ln == 1 && len(rng) == 1 { // String() of a singleton prints the Go value; rewrite it in ids for the validator
		if str == fmt.Sprintf("{%d}", rng[0]-1) {
			str = fmt.Sprintf("{%d}", rng[0])
		}
	}
	return M{"sl": ids1(s.Slice()), "len": ln, "has": has, "rng": rng, "str": str}
}

func buildSet(spec M) (sets.Set[int], M) {
	kind := str(spec, "kind")
	init := ints(spec, "init")
	goinit := dec1(init)
	var s sets.Set[int]
	if kind == "sync2" {
		s = sync2.NewSetFromSlice(goinit)
	} else {
		s = tmaps.NewSetFromSlice(goinit)
	}
	hist := []M{}
	h, _ := spec["hist"].([]any)
	for _, x := range h {
		c := x.(M)
		op, k := str(c, "op"), num(c, "k")
		r := M{"op": op, "k": k, "rok": false, "rv": 0}
		switch op {
		case "Add":
			r["rok"] = s.Add(k - 1)
		case "Remove":
			r["rok"] = s.Remove(k - 1)
		case "Has":
			r["rok"] = s.Has(k - 1)
		case "Len":
			r["rv"] = s.Len()
		}
		hist = append(hist, r)
	}
	return s, M{"kind": kind, "init": init, "hist": hist}
}

func driveSets(plan []M, out *Out, _ []string) {
	for _, p := range plan {
		nu, op, same := num(p, "nu"), str(p, "op"), boolean(p, "same")
		px, py, n := num(p, "px"), num(p, "py"), num(p, "n")
		e := M{"op": op, "same": same, "px": px, "py": py, "n": n, "rv": 0, "sty": "", "ety": str(p, "ety"), "vals": nz(ints(p, "vals")), "prod": [][]int{}, "vis": []int{}}
		var a, b, r sets.Set[int]
		e["panic"] = protect(func() {
			as, _ := p["a"].(M)
			bs, _ := p["b"].(M)
			if as == nil {
				as = M{"kind": "maps"}
			}
			if bs == nil {
				bs = M{"kind": "maps"}
			}
			var ad, bd M
			a, ad = buildSet(as)
			if same {
				b, bd = a, ad
			} else {
				b, bd = buildSet(bs)
			}
			e["a"], e["b"] = ad, bd
			if boolean(p, "blind") {
				// the operands are NOT looked at before the call (an observation enumerates the concurrent set and thereby
				// re-organises its storage: the call would never meet the layout the history built); what they hold is read
				// off twins built by the same deterministic history
				ta, _ := buildSet(as)
				tb := ta
				if !same {
					tb, _ = buildSet(bs)
				}
				e["a0"], e["b0"] = obsSet(ta, nu), obsSet(tb, nu)
			} else {
				e["a0"], e["b0"] = obsSet(a, nu), obsSet(b, nu)
			}
			switch op {
			case "Union":
				r = a.Union(b)
			case "Intersect":
				r = a.Intersect(b)
			case "SetDiff":
				r = a.SetDiff(b)
			case "SymDiff":
				r = a.SymDiff(b)
			case "Clone":
				r = a.Clone()
			case "AddSet":
				e["rv"] = a.AddSet(b)
			case "RemoveSet":
				e["rv"] = a.RemoveSet(b)
			case "Product":
				prod := [][]int{}
				for _, pr := range sets.CartesianProduct(a, b) {
					prod = append(prod, []int{pr.A + 1, pr.B + 1})
				}
				e["prod"] = prod
			case "RangeStop":
				vis := []int{}
				if n > 0 {
					a.Range(func(v int) bool { vis = append(vis, v+1); return len(vis) < n })
				}
				e["vis"] = vis
			case "StringTy":
				e["sty"] = stringTyped(str(p, "kind"), str(p, "ety"), ints(p, "vals"))
			case "Ctor":
				vals := dec1(ints(p, "vals"))
				switch str(p, "ctor") {
				case "maps.Slice":
					r = tmaps.NewSetFromSlice(vals)
				case "sync2.Slice":
					r = sync2.NewSetFromSlice(vals)
				default:
					mk, mv := map[int]int{}, map[int]int{}
					for i, v := range vals {
						mk[v] = i     // keys = vals
						mv[100+i] = v // values = vals (colliding values collapse)
					}
					switch str(p, "ctor") {
					case "maps.Keys":
						r = tmaps.NewSetFromKeys(mk)
					case "sync2.Keys":
						r = sync2.NewSetFromKeys(mk)
					case "maps.Values":
						r = tmaps.NewSetFromValues(mv)
					case "sync2.Values":
						r = sync2.NewSetFromValues(mv)
					}
				}
			}
			e["a1"], e["b1"], e["r1"] = obsSet(a, nu), obsSet(b, nu), obsSet(r, nu)
			// detachment probes
			if r != nil && op != "Ctor" {
				r.Add(px - 1)
				r.Remove(py - 1)
			}
			e["a2"], e["b2"], e["r2"] = obsSet(a, nu), obsSet(b, nu), obsSet(r, nu)
			if r != nil && op != "Ctor" {
				a.Add(py - 1)
				a.Remove(px - 1)
			}
			e["a3"], e["r3"] = obsSet(a, nu), obsSet(r, nu)
		})
		if e["panic"] != "" {
			z := obsSet(nil, nu)
			for _, k := range []string{"a0", "b0", "a1", "b1", "r1", "a2", "b2", "r2", "a3", "r3"} {
				if _, ok := e[k]; !ok {
					e[k] = z
				}
			}
			if _, ok := e["a"]; !ok {
				e["a"], e["b"] = M{"kind": "", "init": []int{}, "hist": []M{}}, M{"kind": "", "init": []int{}, "hist": []M{}}
			}
		}
		out.Emit(e)
	}
}

func dec1(xs []int) []int {
	out := make([]int, len(xs))
	for i, x := range xs {
		out[i] = x - 1
	}
	return out
}

// stringTyped builds a set (kind maps | sync2) of another element type from the member ids and returns its String():
// "arr" [2]int{v, v+1}, "bstr" the string "[v]", "ptr" a pointer to struct{A, B int}{v, v+1}, "str" the string "s<v>" ("" for 0).
func stringTyped(kind, ety string, ids []int) string {
	type pair struct{ A, B int }
	switch ety {
	case "arr":
		return stringOf(kind, ids, func(v int) [2]int { return [2]int{v, v + 1} })
	case "bstr":
		return stringOf(kind, ids, func(v int) string { return fmt.Sprintf("[%d]", v) })
	case "ptr":
		return stringOf(kind, ids, func(v int) *pair { return &pair{v, v + 1} })
	case "str":
		return stringOf(kind, ids, func(v int) string {
			if v == 0 {
				return ""
			}
			return fmt.Sprintf("s%d", v)
		})
	}
	return stringOf(kind, ids, func(v int) int { return v })
}

func stringOf[T comparable](kind string, ids []int, to func(int) T) string {
	var s sets.Set[T]
	if kind == "sync2" {
		s = &sync2.Set[T]{}
	} else {
		s = make(tmaps.Set[T])
	}
	for _, v := range ids {
		s.Add(to(v))
	}
	return fmt.Sprint(s)
}
