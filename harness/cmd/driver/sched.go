package main

// Controlled scheduler for the verif hooks of sync2 (DESIGN.md section 4.3).
//
// Every program thread runs on its own goroutine but only one of them runs at a
// time: a thread parks at each hook (and before/after each call) by sending a
// report and waiting for its resume channel.  The scheduler picks one enabled
// thread, resumes it and waits for its next report, so the code between two
// hooks executes atomically with respect to the other program threads.
// A thread parked in front of a Lock is enabled only while the scheduler's
// view of that mutex is free, so the real Lock never blocks.
//
// If a step does not report back in time (the code blocked somewhere the hooks
// do not cover) the scheduler falls back to free mode: it resumes everything
// and merely relays reports, so that the execution still yields a valid
// history (invocations logged before the call starts, returns after it ends).
// Only if the threads do not finish in free mode either is a deadlock reported.

import (
	"runtime"
	"sync"
	"sync/atomic"
	"time"

	"gopkg.in/typ.v4/sync2"
)

// Call is one call of a thread program: Desc describes it (op, k, v ...),
// Fn performs it on the real object and returns the result fields.
type Call struct {
	Desc M
	Fn   func() M
	// Gate, if set, makes this a pure wait: the thread may start the call only once Gate(done) holds,
	// where done[t] is the number of calls thread t has completed.
	Gate func(done map[int]int) bool
}

type rep struct {
	t     *thr
	kind  string // START, RET, EXIT, Y (yield), L (mutex lock), RW (rwmutex lock)
	site  string
	data  M
	mu    *sync.Mutex
	rw    *sync.RWMutex
	write bool
	gate  func(done map[int]int) bool
}

type thr struct {
	id     int
	resume chan struct{}
	last   rep
	done   bool
	cur    M // description of the call in progress
}

type rwState struct {
	writer  int
	readers int
}

// Sched implements sync2.VerifScheduler.
type Sched struct {
	cur     *thr
	reports chan rep
	owners  map[*sync.Mutex]int
	rws     map[*sync.RWMutex]*rwState
	StepTO  time.Duration
	FreeTO  time.Duration
	free    atomic.Bool // relay mode: hooks no longer park
	done    map[int]int // calls completed per thread (for gates)
}

func NewSched() *Sched {
	return &Sched{reports: make(chan rep), owners: map[*sync.Mutex]int{}, rws: map[*sync.RWMutex]*rwState{}, done: map[int]int{},
		StepTO: 3 * time.Second, FreeTO: 10 * time.Second}
}

// park is called from a hook by the one running program thread (controlled mode only).
func (s *Sched) park(r rep) bool {
	if s.free.Load() {
		return false
	}
	t := s.cur
	r.t = t
	s.reports <- r
	<-t.resume
	if s.free.Load() {
		return false
	}
	s.cur = t
	return true
}

// parkT is called by a thread's own goroutine around its calls.
func (s *Sched) parkT(t *thr, r rep) {
	r.t = t
	s.reports <- r
	<-t.resume
	if !s.free.Load() {
		s.cur = t
	}
}

func (s *Sched) Yield(site string) { s.park(rep{kind: "Y", site: site}) }
func (s *Sched) Lock(mu *sync.Mutex, site string) {
	if s.park(rep{kind: "L", site: site, mu: mu}) {
		s.owners[mu] = s.cur.id
	}
}
func (s *Sched) Unlocked(mu *sync.Mutex) {
	if !s.free.Load() {
		delete(s.owners, mu)
	}
}
func (s *Sched) RWLock(mu *sync.RWMutex, write bool, site string) {
	if !s.park(rep{kind: "RW", site: site, rw: mu, write: write}) {
		return
	}
	st := s.rws[mu]
	if st == nil {
		st = &rwState{}
		s.rws[mu] = st
	}
	if write {
		st.writer = s.cur.id
	} else {
		st.readers++
	}
}
func (s *Sched) RWUnlocked(mu *sync.RWMutex, write bool) {
	if s.free.Load() {
		return
	}
	if st := s.rws[mu]; st != nil {
		if write {
			st.writer = 0
		} else {
			st.readers--
		}
	}
}

// MutexOwner reports the scheduler's view of a mutex (0 = free).
func (s *Sched) MutexOwner(mu *sync.Mutex) int { return s.owners[mu] }

func (s *Sched) enabled(t *thr) bool {
	if t.done {
		return false
	}
	switch t.last.kind {
	case "START":
		return t.last.gate == nil || t.last.gate(s.done)
	case "L":
		// Ask the mutex itself: every other program thread is parked, so a successful TryLock means "free"
		// (this also sees acquisitions made through TryLock, which have no hook of their own).
		if t.last.mu.TryLock() {
			t.last.mu.Unlock()
			return true
		}
		return false
	case "RW":
		if t.last.write {
			if t.last.rw.TryLock() {
				t.last.rw.Unlock()
				return true
			}
			return false
		}
		if t.last.rw.TryRLock() {
			t.last.rw.RUnlock()
			return true
		}
		return false
	}
	return true
}

// Chooser picks the index of the thread to run among the n enabled ones and says how many of them it
// considers at this point (the branching factor for depth-first enumeration).  The enabled threads are
// ordered with the thread that ran last first when it is still enabled (cont), so that index 0 means
// "no preemption".
type Chooser func(n int, cont bool) (choice, branch int)

// Result of one controlled execution.
type ExecInfo struct {
	Branch   []int // number of enabled threads at each scheduling point
	Choices  []int // index chosen at each point
	Free     bool  // fell back to free mode
	Deadlock bool  // did not finish even in free mode
	Blocked  bool  // threads remained parked in front of locks that never became free
}

// RunThreads executes the thread programs to completion under the chooser.
// emit receives one event per scheduler step (inv / step / ret) .
func (s *Sched) RunThreads(ids []int, progs [][]Call, choose Chooser, emit func(M), info *ExecInfo) {
	sync2.VerifSched = s
	var ths []*thr
	var wg sync.WaitGroup
	for i, prog := range progs {
		t := &thr{id: ids[i], resume: make(chan struct{})}
		ths = append(ths, t)
		wg.Add(1)
		go func(t *thr, prog []Call) {
			defer wg.Done()
			<-t.resume
			for _, c := range prog {
				s.parkT(t, rep{kind: "START", data: c.Desc, gate: c.Gate})
				res := c.Fn()
				s.parkT(t, rep{kind: "RET", data: res})
			}
			s.reports <- rep{t: t, kind: "EXIT"}
		}(t, prog)
	}
	// wait for the next report of the running thread, or time out
	recv := func() (rep, bool) {
		for i := 0; i < 300; i++ { // the report is almost always there within microseconds: no timer for that
			select {
			case r := <-s.reports:
				return r, true
			default:
				runtime.Gosched()
			}
		}
		return patientRecv(s.reports, s.StepTO)
	}
	free := func(running *thr) {
		// relay mode: resume everything, then resume whoever reports
		info.Free = true
		s.free.Store(true)
		emit(M{"ev": "freemode"})
		var gated0 []rep
		for _, t := range ths {
			if !t.done && t != running {
				if t.last.kind == "START" {
					if t.last.gate != nil && !t.last.gate(s.done) {
						gated0 = append(gated0, t.last)
						continue
					}
					// its invocation has not been logged yet
					t.cur = t.last.data
					emit(merge(M{"ev": "inv", "t": t.id, "site": "", "to": ""}, t.last.data))
				}
				select {
				case t.resume <- struct{}{}:
				default:
				}
			}
		}
		deadline := patientAfter(s.FreeTO)
		live := 0
		for _, t := range ths {
			if !t.done {
				live++
			}
		}
		gated := gated0
		release := func() {
			rest := gated[:0]
			for _, g := range gated {
				if g.gate(s.done) {
					emit(merge(M{"ev": "inv", "t": g.t.id, "site": "", "to": ""}, g.data))
					go func(t *thr) { t.resume <- struct{}{} }(g.t)
				} else {
					rest = append(rest, g)
				}
			}
			gated = rest
		}
		for live > 0 {
			select {
			case r := <-s.reports:
				switch r.kind {
				case "START":
					r.t.cur = r.data
					if r.gate != nil && !r.gate(s.done) {
						gated = append(gated, r)
						continue
					}
					emit(merge(M{"ev": "inv", "t": r.t.id, "site": "", "to": ""}, r.data))
				case "RET":
					s.done[r.t.id]++
					emit(merge(M{"ev": "ret", "t": r.t.id}, r.data))
					go func(t *thr) { t.resume <- struct{}{} }(r.t)
					release()
					continue
				case "EXIT":
					r.t.done = true
					live--
					continue
				}
				go func(t *thr) { t.resume <- struct{}{} }(r.t)
			case <-deadline:
				info.Deadlock = true
				emit(M{"ev": "deadlock"})
				return
			}
		}
	}
	var lastRun *thr
	// bring every thread to its first report
	for _, t := range ths {
		s.cur = t
		t.resume <- struct{}{}
		r, ok := recv()
		if !ok {
			free(t)
			return
		}
		t.last = r
		if r.kind == "EXIT" {
			t.done = true
		}
	}
	for {
		var en []*thr
		alive := 0
		for _, t := range ths {
			if !t.done {
				alive++
			}
			if s.enabled(t) {
				en = append(en, t)
			}
		}
		if len(en) == 0 {
			if alive > 0 {
				// every live thread waits for a lock that the scheduler believes held: a deadlock of the program itself
				info.Blocked = true
				emit(M{"ev": "blocked", "n": alive})
				free(nil)
			}
			break
		}
		cont := false
		for i, t := range en {
			if t == lastRun {
				en[0], en[i] = en[i], en[0]
				cont = true
				break
			}
		}
		ci, br := choose(len(en), cont)
		ci %= len(en)
		info.Branch = append(info.Branch, br)
		info.Choices = append(info.Choices, ci)
		lastRun = en[ci]
		t := en[ci]
		from := t.last
		s.cur = t
		t.resume <- struct{}{}
		r, ok := recv()
		if !ok {
			emit(M{"ev": "stuck", "t": t.id, "site": from.site})
			free(t)
			break
		}
		if r.t != t {
			panic("sched: report from a thread that was not running")
		}
		switch from.kind {
		case "START":
			t.cur = from.data
			to := r.site
			if r.kind == "RET" {
				// a call without any hook inside: invocation and return in one step
				emit(merge(M{"ev": "inv", "t": t.id, "site": "", "to": "idle0"}, from.data))
				emit(merge(M{"ev": "ret", "t": t.id}, r.data))
			} else {
				emit(merge(M{"ev": "inv", "t": t.id, "site": "", "to": to}, from.data))
			}
		case "RET":
			// moved on to the next START or EXIT: no event
		default:
			ev := M{"ev": "step", "t": t.id, "site": from.site, "to": r.site}
			if r.kind == "RET" {
				ev["to"] = "idle"
				ev = merge(ev, r.data)
			}
			emit(ev)
		}
		t.last = r
		if r.kind == "RET" {
			s.done[t.id]++
		}
		if r.kind == "EXIT" {
			t.done = true
		}
	}
	if !info.Deadlock {
		done := make(chan struct{})
		go func() { wg.Wait(); close(done) }()
		if _, ok := patientRecv(done, s.FreeTO); !ok {
			info.Deadlock = true
		}
	}
	sync2.VerifSched = nil
}

func merge(a, b M) M {
	for k, v := range b {
		a[k] = v
	}
	return a
}

// dfsNext computes the next schedule prefix in depth-first order, or nil when exhausted.
func dfsNext(info *ExecInfo) []int {
	for i := len(info.Choices) - 1; i >= 0; i-- {
		if info.Choices[i]+1 < info.Branch[i] {
			next := append([]int{}, info.Choices[:i]...)
			return append(next, info.Choices[i]+1)
		}
	}
	return nil
}
