package main

import (
	"os"
	"sync/atomic"
	"time"
)

// Watchdogs and stall detection.
//
// A verdict must never come from the wall clock alone: a virtual machine that is paused, or a process that gets no
// processor for a second, would run down every time.After watchdog at once and turn "slow" into "hung".
//
// patientAfter(d) is a drop-in replacement for time.After(d) in the role of a watchdog: it fires after d counted in
// one-millisecond wake-ups of its own goroutine.  A frozen process does not wake up, so nothing is counted; a starved
// process wakes up rarely, and every wake-up is a moment at which the watched goroutines could have run as well.
func patientAfter(d time.Duration) <-chan time.Time {
	c := make(chan time.Time, 1)
	go func() {
		for n := int(d / time.Millisecond); n > 0; n-- {
			time.Sleep(time.Millisecond)
		}
		c <- time.Now()
	}()
	return c
}

// patience is the same for loops that wait on several channels: select on Tick() and give up when Out() is true.
type patience struct{ left int }

func newPatience(d time.Duration) *patience { return &patience{left: int(d / time.Millisecond)} }
func (p *patience) Tick() <-chan time.Time  { p.left--; return time.After(time.Millisecond) }
func (p *patience) Out() bool               { return p.left <= 0 }

// patientRecv waits for a value from ch for at most d (counted as above, without a helper goroutine: cheap enough for hot paths).
func patientRecv[T any](ch <-chan T, d time.Duration) (v T, ok bool) {
	select { // fast path
	case v = <-ch:
		return v, true
	default:
	}
	for n := int(d / time.Millisecond); n > 0; n-- {
		select {
		case v = <-ch:
			return v, true
		case <-time.After(time.Millisecond):
		}
	}
	return v, false
}

// The heartbeat measures the longest interval between two consecutive one-millisecond sleeps of one goroutine.
// Scenarios whose expected outcome depends on margins of real time (the timed channel helpers) are repeated when the
// heartbeat shows that the process stalled while they ran.
var hbMax atomic.Int64

func init() {
	if os.Getenv("VERIF_NOHB") != "" {
		return
	}
	go func() {
		last := time.Now()
		for {
			time.Sleep(time.Millisecond)
			now := time.Now()
			if g := int64(now.Sub(last)); g > hbMax.Load() {
				hbMax.Store(g)
			}
			last = now
		}
	}()
}

func stallReset()             { hbMax.Store(0) }
func stallMax() time.Duration { return time.Duration(hbMax.Load()) }
