package main

import (
	"math/rand"
	"sync"
	"sync/atomic"

	"gopkg.in/typ.v4/sync2"
)

// Free-running stress of sync2.Map (no scheduler installed; the hooks are compiled in but do nothing).
// Plan line: {"threads":n,"ops":m,"keys":k,"seed":s,"rounds":r,"log":bool}
// log=false: no shared harness state at all between the goroutines (for the race detector: a logging
//
//	counter would add happens-before edges and hide races); output is one line per round.
//
// log=true:  every call is bracketed by a global sequence number taken before it starts and after it
//
//	returns; the history is emitted in sequence order for the linearizability validator.
func init() { comps["syncmap-stress"] = stressSyncMap }

func stressSyncMap(plan []M, out *Out, _ []string) {
	kinds := []string{"Load", "Store", "LoadOrStore", "LoadAndDelete", "Delete", "Range"}
	for _, p := range plan {
		nt, nops, nk, rounds, logh := num(p, "threads"), num(p, "ops"), num(p, "keys"), num(p, "rounds"), boolean(p, "log")
		for r := 0; r < rounds; r++ {
			m := &sync2.Map[int, int]{}
			var seq int64
			type rec struct {
				seq int64
				e   M
			}
			recs := make([][]rec, nt)
			var wg sync.WaitGroup
			start := make(chan struct{})
			for t := 1; t <= nt; t++ {
				wg.Add(1)
				go func(t int) {
					defer wg.Done()
					rng := rand.New(rand.NewSource(int64(num(p, "seed")*100000 + r*100 + t)))
					<-start
					for i := 1; i <= nops; i++ {
						op, k, v := kinds[rng.Intn(len(kinds))], 1+rng.Intn(nk), t*100+i
						if logh {
							recs[t-1] = append(recs[t-1], rec{atomic.AddInt64(&seq, 1), M{"ev": "inv", "t": t, "op": op, "k": k, "v": v}})
						}
						res := mapCall(m, M{"op": op, "k": float64(k), "v": float64(v)}).Fn()
						if logh {
							recs[t-1] = append(recs[t-1], rec{atomic.AddInt64(&seq, 1), M{"ev": "ret", "t": t, "rv": res["rv"], "rok": res["rok"], "rep": res["rep"]}})
						}
					}
				}(t)
			}
			close(start)
			wg.Wait()
			if !logh {
				out.Emit(M{"ev": "round", "round": r})
				continue
			}
			all := make([]M, 2*nt*nops)
			for _, rs := range recs {
				for _, x := range rs {
					all[x.seq-1] = x.e
				}
			}
			// quiescent read-back
			for k := 1; k <= nk; k++ {
				v, ok := m.Load(mapKey(k))
				all = append(all, M{"ev": "inv", "t": 9, "op": "Load", "k": k, "v": 0}, M{"ev": "ret", "t": 9, "rv": mapRet(v, ok, false), "rok": ok, "rep": []int{}})
			}
			rep := []int{}
			m.Range(func(k, v int) bool { rep = append(rep, k+1, mapValID(v)); return true })
			all = append(all, M{"ev": "inv", "t": 9, "op": "Range", "k": 0, "v": 0}, M{"ev": "ret", "t": 9, "rv": 0, "rok": false, "rep": rep})
			out.Emit(M{"ev": "hist", "plan": 0, "ex": r, "free": true, "deadlock": false, "blocked": false, "choices": []int{}, "h": all})
		}
	}
}

// Free-running sync2.Set stress for the race detector (no shared harness state between the goroutines).
func init() { comps["syncset-stress"] = stressSyncSet }

func stressSyncSet(plan []M, out *Out, _ []string) {
	for _, p := range plan {
		nt, nops, nk, rounds := num(p, "threads"), num(p, "ops"), num(p, "keys"), num(p, "rounds")
		for r := 0; r < rounds; r++ {
			st := &sync2.Set[int]{}
			arg := sync2.NewSetFromSlice([]int{1, 2})
			var wg sync.WaitGroup
			start := make(chan struct{})
			for t := 1; t <= nt; t++ {
				wg.Add(1)
				go func(t int) {
					defer wg.Done()
					rng := rand.New(rand.NewSource(int64(num(p, "seed")*100000 + r*100 + t)))
					<-start
					for i := 0; i < nops; i++ {
						k := rng.Intn(nk)
						switch rng.Intn(7) {
						case 0:
							st.Add(k)
						case 1:
							st.Remove(k)
						case 2:
							st.Has(k)
						case 3:
							st.Len()
						case 4:
							st.AddSet(arg)
						case 5:
							st.RemoveSet(arg)
						case 6:
							_ = st.Slice()
						}
					}
				}(t)
			}
			close(start)
			wg.Wait()
			out.Emit(M{"ev": "round", "round": r})
		}
	}
}

// Free-running "stable members and churn" rounds for sync2.Set (no hooks involved, so windows without hook sites are seen too):
// `stable` values are added before the round and never removed, `absent` values are never added; churn goroutines Add / Remove a few
// other values as fast as they can; observer goroutines ask Has for the stable and the absent values.  "Has never reports a value
// that was never added or misses one that is stably present": one line per batch with the number of such answers.
func init() { comps["syncset-stable"] = stableSyncSet }

func stableSyncSet(plan []M, out *Out, _ []string) {
	for _, p := range plan {
		rounds, nstable, nchurnVals, churners, observers, nops := num(p, "rounds"), num(p, "stable"), num(p, "churnvals"), num(p, "churners"), num(p, "observers"), num(p, "ops")
		misses, ghosts, checks, lenbad := 0, 0, 0, 0
		for r := 0; r < rounds; r++ {
			st := &sync2.Set[int]{}
			for v := 0; v < nstable; v++ {
				st.Add(v)
			}
			if r%2 == 1 {
				st.Len() // every other round starts from a promoted map
			}
			var wg sync.WaitGroup
			var mi, gh, ck, lb int64
			start := make(chan struct{})
			for c := 0; c < churners; c++ {
				wg.Add(1)
				go func(c int) {
					defer wg.Done()
					rng := rand.New(rand.NewSource(int64(num(p, "seed")*100000 + r*100 + c)))
					<-start
					for i := 0; i < nops; i++ {
						v := 100 + rng.Intn(nchurnVals)
						if rng.Intn(2) == 0 {
							st.Add(v)
						} else {
							st.Remove(v)
						}
					}
				}(c)
			}
			for o := 0; o < observers; o++ {
				wg.Add(1)
				go func(o int) {
					defer wg.Done()
					<-start
					for i := 0; i < nops; i++ {
						if nstable > 0 && !st.Has(i%nstable) {
							atomic.AddInt64(&mi, 1)
						}
						if st.Has(1000 + i%3) {
							atomic.AddInt64(&gh, 1)
						}
						if i%16 == 0 {
							if n := st.Len(); n < nstable || n > nstable+nchurnVals {
								atomic.AddInt64(&lb, 1)
							}
						}
						atomic.AddInt64(&ck, 2)
					}
				}(o)
			}
			close(start)
			wg.Wait()
			misses, ghosts, checks, lenbad = misses+int(mi), ghosts+int(gh), checks+int(ck), lenbad+int(lb)
		}
		out.Emit(M{"ev": "stable", "rounds": rounds, "checks": checks, "misses": misses, "ghosts": ghosts, "lenbad": lenbad})
	}
}
