package main

import (
	tmaps "gopkg.in/typ.v4/maps"
	"gopkg.in/typ.v4/sync2"
)

// C05: sync2.Set[int] under the controlled scheduler (same hooks: the Set is a Map[T, struct{}]).
// call = {"op": Add|Remove|Has|AddSet|RemoveSet|Len, "k": value, "s": [values of the argument set]}
// results: rv (count for AddSet/RemoveSet/Len), rok (bool of Add/Remove/Has)
func init() { comps["syncset"] = driveSyncSet }

// element ids 1, 2, 3 in the trace are the Go values 0, 1, 2 (the zero value is a member like any other)
func setCall(st *sync2.Set[int], c M) Call {
	op, kid := str(c, "op"), num(c, "k")
	k := kid - 1
	sv := ints(c, "s")
	gosv := make([]int, len(sv))
	for i, x := range sv {
		gosv[i] = x - 1
	}
	return Call{Desc: M{"op": op, "k": kid, "v": 0, "s": sv}, Fn: func() M {
		r := M{"rv": 0, "rok": false, "rep": []int{}}
		switch op {
		case "Add":
			r["rok"] = st.Add(k)
		case "Remove":
			r["rok"] = st.Remove(k)
		case "Has":
			r["rok"] = st.Has(k)
		case "AddSet":
			r["rv"] = st.AddSet(tmaps.NewSetFromSlice(gosv))
		case "RemoveSet":
			r["rv"] = st.RemoveSet(tmaps.NewSetFromSlice(gosv))
		case "Len":
			r["rv"] = st.Len()
		case "Slice":
			r["rep"] = ids1(st.Slice())
		}
		return r
	}}
}

func driveSyncSet(plan []M, out *Out, _ []string) {
	driveWorld(plan, out, func(p M) *world {
		st := &sync2.Set[int]{}
		keys := ints(p, "keys")
		gokeys := make([]int, len(keys))
		for i, k := range keys {
			gokeys[i] = k - 1
		}
		return &world{
			snap: func(s *Sched, e M) M {
				sn := sync2.VerifSnapshot(sync2.VerifSetMap(st), gokeys, func(struct{}) int { return 1 })
				e["r"], e["d"], e["am"], e["dn"], e["ms"] = nz(sn.R), nz(sn.D), sn.Amended, sn.DirtyNil, sn.Misses
				return e
			},
			calls: func(v any) []Call {
				a, _ := v.([]any)
				out := []Call{}
				for _, x := range a {
					out = append(out, setCall(st, x.(M)))
				}
				return out
			},
			final: func() []M {
				evs := []M{}
				for _, k := range keys {
					evs = append(evs, M{"ev": "final", "op": "Has", "k": k, "rv": 0, "rok": st.Has(k - 1), "s": []int{}})
				}
				evs = append(evs, M{"ev": "final", "op": "Len", "k": 0, "rv": st.Len(), "rok": false, "s": []int{}})
				return append(evs, M{"ev": "final", "op": "Slice", "k": 0, "rv": 0, "rok": false, "rep": ids1(st.Slice()), "s": []int{}})
			},
		}
	})
}

func ids1(xs []int) []int {
	out := make([]int, 0, len(xs))
	for _, x := range xs {
		out = append(out, x+1)
	}
	return out
}
