package main

import (
	"math/rand"
	"runtime"
	"sync"
	"sync/atomic"
	"time"

	"gopkg.in/typ.v4/sync2"
)

// C18: AtomicValue[int] (sequential tour + free-running goroutines) and Pool[int].
func init() {
	comps["atomicvalue"] = driveAtomicValue
	comps["atomicvalue-stress"] = stressAtomicValue
	comps["pool-stress"] = stressPool
	comps["atomicvalue-count"] = countAtomicValue
	comps["pool-holders"] = holdersPool
	comps["pool-script"] = scriptPool
}

type avS struct{ A, B int } // a comparable struct type, to exercise CompareAndSwap on non-scalar values

func avApply(v *sync2.AtomicValue[int], op string, a, b int) (int, bool) {
	switch op {
	case "Load":
		return v.Load(), true
	case "Store":
		v.Store(a)
	case "Swap":
		return v.Swap(a), true
	case "CompareAndSwap":
		return 0, v.CompareAndSwap(a, b)
	}
	return 0, true
}

// sequential plans: every call logged as an inv line followed by its ret line (thread 1)
func driveAtomicValue(plan []M, out *Out, _ []string) {
	var v *sync2.AtomicValue[int]
	var vs *sync2.AtomicValue[string]
	var vt *sync2.AtomicValue[avS]
	ty := "int"
	enc := func(i int) string { return string(rune('a' + i)) }
	for _, c := range plan {
		op, a, b := str(c, "op"), num(c, "a"), num(c, "b")
		if op == "Reset" {
			ty = str(c, "ty")
			v, vs, vt = new(sync2.AtomicValue[int]), new(sync2.AtomicValue[string]), new(sync2.AtomicValue[avS])
			out.Emit(M{"ev": "reset", "ty": ty})
			continue
		}
		out.Emit(M{"ev": "inv", "t": 1, "op": op, "a": a, "b": b})
		r, ok := 0, true
		p, hung := "", false
		withWatchdog(20*time.Second, &hung, func() {
			p = protect(func() {
				switch ty {
				case "string":
					switch op {
					case "Load":
						if s := vs.Load(); s != "" {
							r = int(s[0] - 'a')
						}
					case "Store":
						vs.Store(enc(a))
					case "Swap":
						if s := vs.Swap(enc(a)); s != "" {
							r = int(s[0] - 'a')
						}
					case "CompareAndSwap":
						ok = vs.CompareAndSwap(enc(a), enc(b))
					}
				case "struct":
					switch op {
					case "Load":
						r = vt.Load().A
					case "Store":
						vt.Store(avS{a, a * 2})
					case "Swap":
						r = vt.Swap(avS{a, a * 2}).A
					case "CompareAndSwap":
						ok = vt.CompareAndSwap(avS{a, a * 2}, avS{b, b * 2})
					}
				default:
					r, ok = avApply(v, op, a, b)
				}
			})
		})
		if hung {
			// a single call on a value nobody else uses did not come back: no validator action explains the line
			out.Emit(M{"ev": "stall", "what": "call did not return", "op": op})
			return
		}
		out.Emit(M{"ev": "ret", "t": 1, "r": r, "ok": ok, "panic": p})
	}
}

// free-running goroutines; log=true brackets every call with a global sequence number (history for the validator),
// log=false shares nothing between the goroutines but the value under test (race detector run).
func stressAtomicValue(plan []M, out *Out, _ []string) {
	ops := []string{"Load", "Store", "Swap", "CompareAndSwap", "CompareAndSwap"}
	for _, p := range plan {
		nt, nops, rounds, logh := num(p, "threads"), num(p, "ops"), num(p, "rounds"), boolean(p, "log")
		for r := 0; r < rounds; r++ {
			v := new(sync2.AtomicValue[int])
			var seq int64
			type rec struct {
				seq int64
				e   M
			}
			recs := make([][]rec, nt)
			var wg sync.WaitGroup
			start := make(chan struct{})
			for t := 1; t <= nt; t++ {
				wg.Add(1)
				go func(t int) {
					defer wg.Done()
					rng := rand.New(rand.NewSource(int64(num(p, "seed")*100000 + r*100 + t)))
					<-start
					for i := 0; i < nops; i++ {
						// values 1001..1003: not single bytes, so equal values stored twice live in distinct boxes
						op, a, b := ops[rng.Intn(len(ops))], 1001+rng.Intn(3), 1001+rng.Intn(3)
						if logh {
							recs[t-1] = append(recs[t-1], rec{atomic.AddInt64(&seq, 1), M{"ev": "inv", "t": t, "op": op, "a": a, "b": b}})
						}
						rv, ok := avApply(v, op, a, b)
						if logh {
							recs[t-1] = append(recs[t-1], rec{atomic.AddInt64(&seq, 1), M{"ev": "ret", "t": t, "r": rv, "ok": ok, "panic": ""}})
						}
					}
				}(t)
			}
			close(start)
			if !waitPatient(&wg, 120*time.Second) {
				// lock-free calls that do not come back (every call returns: AtomicCAS.tla's EveryCallReturns): no validator action explains the line
				out.Emit(M{"ev": "stall", "what": "calls did not return"})
				return
			}
			if !logh {
				out.Emit(M{"ev": "round", "round": r})
				continue
			}
			all := make([]M, 2*nt*nops)
			for _, rs := range recs {
				for _, x := range rs {
					all[x.seq-1] = x.e
				}
			}
			out.Emit(M{"ev": "reset", "ty": "int"})
			for _, e := range all {
				out.Emit(e)
			}
			// quiescent read-back
			out.Emit(M{"ev": "inv", "t": 1, "op": "Load", "a": 0, "b": 0})
			out.Emit(M{"ev": "ret", "t": 1, "r": v.Load(), "ok": true, "panic": ""})
		}
	}
}

// Pool: tokens are unique ints; every goroutine Gets, holds, Puts.  The log lines are written under one mutex:
// "get" right after Get returned, "put" right before Put is called.
func stressPool(plan []M, out *Out, _ []string) {
	for _, p := range plan {
		nt, nops, rounds, hasNew, logh := num(p, "threads"), num(p, "ops"), num(p, "rounds"), boolean(p, "hasnew"), boolean(p, "log")
		for r := 0; r < rounds; r++ {
			var next int64 = 999
			pool := &sync2.Pool[int]{}
			if hasNew {
				pool.New = func() int { return int(atomic.AddInt64(&next, 1)) }
			}
			var mu sync.Mutex
			evs := []M{{"ev": "reset", "hasnew": hasNew}}
			var wg sync.WaitGroup
			start := make(chan struct{})
			for t := 1; t <= nt; t++ {
				wg.Add(1)
				go func(t int) {
					defer wg.Done()
					rng := rand.New(rand.NewSource(int64(num(p, "seed")*100000 + r*100 + t)))
					<-start
					mine := 5000 + t*100 // tokens this goroutine introduces itself by Put when New is nil
					for i := 0; i < nops; i++ {
						x := pool.Get()
						if logh {
							mu.Lock()
							evs = append(evs, M{"ev": "get", "t": t, "x": x, "hasnew": hasNew})
							mu.Unlock()
						}
						if x == 0 {
							mine++
							x = mine
							if logh { // introducing a brand-new token: it is "held" by us from now on
								mu.Lock()
								evs = append(evs, M{"ev": "put", "t": t, "x": x})
								evs = append(evs, M{"ev": "get", "t": t, "x": x, "hasnew": true})
								mu.Unlock()
							}
						}
						if rng.Intn(4) > 0 {
							if logh {
								mu.Lock()
								evs = append(evs, M{"ev": "put", "t": t, "x": x})
								mu.Unlock()
							}
							pool.Put(x)
						}
					}
				}(t)
			}
			close(start)
			if !waitPatient(&wg, 120*time.Second) {
				// lock-free calls that do not come back (every call returns: AtomicCAS.tla's EveryCallReturns): no validator action explains the line
				out.Emit(M{"ev": "stall", "what": "calls did not return"})
				return
			}
			if logh {
				for _, e := range evs {
					out.Emit(e)
				}
			} else {
				out.Emit(M{"ev": "round", "round": r})
			}
		}
	}
}

// Large free-running workloads whose outcome can be checked in linear time (necessary conditions of atomicity):
//
//	swapchain: every goroutine Swaps in its own unique tokens; in any atomic execution every value (the initial zero
//	           value and every token but the last one standing) is returned by exactly one Swap;
//	casinc:    goroutines increment through Load + CompareAndSwap(x, x+1); the final value is start + #successes.
func countAtomicValue(plan []M, out *Out, _ []string) {
	for _, p := range plan {
		kind, nt, nops, rounds := str(p, "kind"), num(p, "threads"), num(p, "ops"), num(p, "rounds")
		if kind == "firststore" {
			// a never-used value, its very first accesses racing: Load (and CompareAndSwap, Swap of others) against ONE Store(x);
			// once everybody has returned, the register holds x (nothing else was ever stored)
			bad, firstBad := 0, 0
			for r := 0; r < rounds; r++ {
				type big struct{ a, b, c, d int }
				v := new(sync2.AtomicValue[big])
				x := big{r + 1, 2, 3, 4}
				var wg sync.WaitGroup
				start := make(chan struct{})
				for t := 0; t < nt; t++ {
					wg.Add(1)
					go func(t int) {
						defer wg.Done()
						<-start
						if t == 0 {
							v.Store(x)
						} else if t%2 == 1 {
							v.Load()
						} else {
							v.CompareAndSwap(big{}, big{})
						}
					}(t)
				}
				close(start)
				if !waitPatient(&wg, 120*time.Second) {
					// lock-free calls that do not come back (every call returns: AtomicCAS.tla's EveryCallReturns): no validator action explains the line
					out.Emit(M{"ev": "stall", "what": "calls did not return"})
					return
				}
				if got := v.Load(); got != x && got != (big{}) || v.Load() != x {
					if bad == 0 {
						firstBad = r
					}
					bad++
				}
			}
			out.Emit(M{"ev": "firststore", "rounds": rounds, "bad": bad, "first": firstBad})
			continue
		}
		for r := 0; r < rounds; r++ {
			v := new(sync2.AtomicValue[int])
			rets := make([][]int, nt)
			succ := make([]int, nt)
			startVal := 1
			if kind == "casinc-refresh" { // boxed values (beyond the runtime's allocation-free small integers)
				startVal = 1000
			}
			if kind == "casinc" || kind == "casinc-refresh" {
				v.Store(startVal)
			}
			if kind == "eqstore" {
				v.Store(5000)
			}
			var wg sync.WaitGroup
			start := make(chan struct{})
			for t := 0; t < nt; t++ {
				wg.Add(1)
				go func(t int) {
					defer wg.Done()
					<-start
					if kind == "eqstore" {
						// the register holds 5000 throughout: goroutine 0 counts CompareAndSwap(5000, 5000) failures while the
						// others keep storing the very same value
						if t == 0 {
							for i := 0; i < nops; i++ {
								if !v.CompareAndSwap(5000, 5000) {
									succ[0]++
								}
							}
						} else {
							for i := 0; i < nops; i++ {
								v.Store(5000)
							}
						}
						return
					}
					if kind == "casinc-refresh" && t >= nt-2 {
						// refreshers: replace the value by an equal one (a new box, no change of value), which must not disturb anybody
						for i := 0; i < nops; i++ {
							x := v.Load()
							v.CompareAndSwap(x, x)
						}
						return
					}
					for i := 1; i <= nops; i++ {
						if kind == "swapchain" {
							rets[t] = append(rets[t], v.Swap((t+1)*100000+i))
						} else {
							x := v.Load()
							if v.CompareAndSwap(x, x+1) {
								succ[t]++
							}
						}
					}
				}(t)
			}
			close(start)
			if !waitPatient(&wg, 120*time.Second) {
				// lock-free calls that do not come back (every call returns: AtomicCAS.tla's EveryCallReturns): no validator action explains the line
				out.Emit(M{"ev": "stall", "what": "calls did not return"})
				return
			}
			if kind == "eqstore" {
				out.Emit(M{"ev": "eqstore", "fails": succ[0], "tries": nops})
				continue
			}
			if kind == "swapchain" {
				all := []int{}
				for _, rs := range rets {
					all = append(all, rs...)
				}
				out.Emit(M{"ev": "swapchain", "threads": nt, "ops": nops, "rets": all, "final": v.Load()})
			} else {
				total := 0
				for _, c := range succ {
					total += c
				}
				out.Emit(M{"ev": "casinc", "start": startVal, "succ": total, "final": v.Load()})
			}
		}
	}
}

// Pool under real parallelism: many more goroutines than processors, each holding up to four items at a time.  Every item is
// a unique token with a holder counter that is incremented right after Get returned it and decremented right before it is
// Put back; the largest counter value any goroutine ever saw is reported.  A value above 1 means two Get callers held the
// same item at once.  (No lock is shared between the goroutines, so the pool is exercised at full speed.)
func holdersPool(plan []M, out *Out, _ []string) {
	for _, p := range plan {
		nt, nops, rounds, hasNew := num(p, "threads"), num(p, "ops"), num(p, "rounds"), boolean(p, "hasnew")
		for r := 0; r < rounds; r++ {
			const maxTok = 1 << 16
			holders := make([]int32, maxTok)
			var next int64 = 999
			pool := &sync2.Pool[int]{}
			if hasNew {
				pool.New = func() int { return int(atomic.AddInt64(&next, 1)) }
			}
			maxSeen := make([]int32, nt)
			gets := make([]int, nt)
			var wg sync.WaitGroup
			start := make(chan struct{})
			for t := 0; t < nt; t++ {
				wg.Add(1)
				go func(t int) {
					defer wg.Done()
					rng := rand.New(rand.NewSource(int64(num(p, "seed")*100000 + r*1000 + t)))
					held := []int{}
					<-start
					for i := 0; i < nops; i++ {
						if len(held) < 4 && (len(held) == 0 || rng.Intn(2) == 0) {
							x := pool.Get()
							if x == 0 { // New is nil and the pool was empty: introduce a token of our own
								x = int(atomic.AddInt64(&next, 1))
							}
							gets[t]++
							if h := atomic.AddInt32(&holders[x%maxTok], 1); h > maxSeen[t] {
								maxSeen[t] = h
							}
							held = append(held, x)
						} else {
							j := rng.Intn(len(held))
							x := held[j]
							held = append(held[:j], held[j+1:]...)
							atomic.AddInt32(&holders[x%maxTok], -1)
							pool.Put(x)
						}
						if i%8 == 0 {
							runtime.Gosched()
						}
					}
				}(t)
			}
			close(start)
			if !waitPatient(&wg, 120*time.Second) {
				// lock-free calls that do not come back (every call returns: AtomicCAS.tla's EveryCallReturns): no validator action explains the line
				out.Emit(M{"ev": "stall", "what": "calls did not return"})
				return
			}
			m, g := int32(0), 0
			for t := 0; t < nt; t++ {
				if maxSeen[t] > m {
					m = maxSeen[t]
				}
				g += gets[t]
			}
			out.Emit(M{"ev": "reset", "hasnew": hasNew})
			out.Emit(M{"ev": "holders", "max": m, "gets": g, "hasnew": hasNew})
		}
	}
}

// One goroutine, a script: the New field is assigned between calls (nil, a function handing out 1000.., another one
// handing out 2000..), values are put back and fetched again.  Steps: "nil" | "A" | "B" | "get" | "put" (the oldest value held).
func scriptPool(plan []M, out *Out, _ []string) {
	for _, p := range plan {
		pool := &sync2.Pool[int]{}
		nextA, nextB := 999, 1999
		hasNew := false
		held := []int{}
		out.Emit(M{"ev": "reset", "hasnew": false})
		steps, _ := p["steps"].([]any)
		for _, st := range steps {
			switch st.(string) {
			case "nil":
				pool.New, hasNew = nil, false
			case "A":
				pool.New, hasNew = func() int { nextA++; return nextA }, true
			case "B":
				pool.New, hasNew = func() int { nextB++; return nextB }, true
			case "get":
				x := 0
				if pn := protect(func() { x = pool.Get() }); pn != "" {
					out.Emit(M{"ev": "get", "t": 1, "x": -1, "hasnew": hasNew, "panic": pn})
					continue
				}
				if x != 0 {
					held = append(held, x)
				}
				out.Emit(M{"ev": "get", "t": 1, "x": x, "hasnew": hasNew})
			case "put":
				if len(held) > 0 {
					x := held[0]
					held = held[1:]
					out.Emit(M{"ev": "put", "t": 1, "x": x})
					pool.Put(x)
				}
			}
		}
	}
}
