package main

import "gopkg.in/typ.v4/slices"

// C07: slices.Sorted over int with three orders.
func init() { comps["sorted"] = driveSorted }

func lessFor(mode string) func(a, b int) bool {
	switch mode {
	case "desc":
		return func(a, b int) bool { return a > b }
	case "key":
		return func(a, b int) bool { return a/10 < b/10 }
	}
	return func(a, b int) bool { return a < b }
}

func driveSorted(plan []M, out *Out, _ []string) {
	var s slices.Sorted[int]
	var input []int
	mode := "asc"
	for _, c := range plan {
		op := str(c, "op")
		arg := num(c, "arg")
		e := M{"op": op, "arg": arg, "ret": 0, "vals": nz(ints(c, "vals")), "idx": -1, "has": false}
		if op == "Reset" {
			mode = str(c, "mode")
			e["mode"] = mode
			s, input = slices.Sorted[int]{}, nil
			out.Emit(e)
			continue
		}
		e["panic"] = protect(func() {
			switch op {
			case "New":
				vals := ints(c, "vals")
				// give the caller's slice spare capacity so that aliasing would be visible
				input = append(make([]int, 0, len(vals)+4), vals...)
				if mode == "asc" && boolean(c, "ordered") {
					s = slices.NewSortedOrdered(input...)
				} else {
					s = slices.NewSorted(input, lessFor(mode))
				}
			case "Poke":
				for i := range input {
					input[i] = 77
				}
			case "Add":
				e["ret"] = s.Add(arg)
			case "Remove":
				e["ret"] = s.Remove(arg)
			case "RemoveAt":
				s.RemoveAt(arg)
			case "Get":
				e["ret"] = s.Get(arg)
			case "Index":
				e["ret"] = s.Index(arg)
			case "Contains":
				if s.Contains(arg) {
					e["ret"] = 1
				}
			}
		})
		items := []int{}
		p2 := protect(func() {
			n := s.Len()
			for i := 0; i < n; i++ {
				items = append(items, s.Get(i))
			}
			e["len"] = n
			e["str"] = s.String()
			if op == "Index" || op == "Contains" {
				e["idx"], e["has"] = s.Index(arg), s.Contains(arg)
			}
		})
		if e["panic"] == "" {
			e["panic"] = p2
		}
		e["items"] = items
		e["input"] = nz(append([]int(nil), input...))
		out.Emit(e)
	}
}
