package main

import (
	"container/list"
	"container/ring"
	"time"

	"gopkg.in/typ.v4/lists"
)

// C06: lists.List / lists.Ring against container/list / container/ring in lock step.
func init() { comps["lists"] = driveLists; comps["rings"] = driveRings }

type listPair struct {
	fl [3]*lists.List[int] // index 1, 2
	gl [3]*list.List
	fe []*lists.Element[int] // handle id-1 -> element
	ge []*list.Element
}

func (p *listPair) fid(e *lists.Element[int]) int {
	if e == nil {
		return 0
	}
	for i, x := range p.fe {
		if x == e {
			return i + 1
		}
	}
	return -1
}
func (p *listPair) gid(e *list.Element) int {
	if e == nil {
		return 0
	}
	for i, x := range p.ge {
		if x == e {
			return i + 1
		}
	}
	return -1
}

func (p *listPair) obsF() M {
	o := M{}
	lens, fwd, bwd, vals := []int{}, [][]int{}, [][]int{}, [][]int{}
	for l := 1; l <= 2; l++ {
		L := p.fl[l]
		lens = append(lens, L.Len())
		f, b, v := []int{}, []int{}, []int{}
		n := 0
		for e := L.Front(); e != nil && n < 40; e, n = e.Next(), n+1 {
			f, v = append(f, p.fid(e)), append(v, e.Value)
		}
		n = 0
		for e := L.Back(); e != nil && n < 40; e, n = e.Prev(), n+1 {
			b = append(b, p.fid(e))
		}
		fwd, bwd, vals = append(fwd, f), append(bwd, b), append(vals, v)
	}
	nx, pv, vl := []int{}, []int{}, []int{}
	for _, e := range p.fe {
		nx, pv, vl = append(nx, p.fid(e.Next())), append(pv, p.fid(e.Prev())), append(vl, e.Value)
	}
	o["len"], o["fwd"], o["bwd"], o["vals"], o["next"], o["prev"], o["val"] = lens, fwd, bwd, vals, nx, pv, vl
	return o
}

func (p *listPair) obsG() M {
	o := M{}
	lens, fwd, bwd, vals := []int{}, [][]int{}, [][]int{}, [][]int{}
	for l := 1; l <= 2; l++ {
		L := p.gl[l]
		lens = append(lens, L.Len())
		f, b, v := []int{}, []int{}, []int{}
		n := 0
		for e := L.Front(); e != nil && n < 40; e, n = e.Next(), n+1 {
			f, v = append(f, p.gid(e)), append(v, anyInt(e.Value))
		}
		n = 0
		for e := L.Back(); e != nil && n < 40; e, n = e.Prev(), n+1 {
			b = append(b, p.gid(e))
		}
		fwd, bwd, vals = append(fwd, f), append(bwd, b), append(vals, v)
	}
	nx, pv, vl := []int{}, []int{}, []int{}
	for _, e := range p.ge {
		nx, pv, vl = append(nx, p.gid(e.Next())), append(pv, p.gid(e.Prev())), append(vl, anyInt(e.Value))
	}
	o["len"], o["fwd"], o["bwd"], o["vals"], o["next"], o["prev"], o["val"] = lens, fwd, bwd, vals, nx, pv, vl
	return o
}

func driveLists(plan []M, out *Out, _ []string) {
	var p *listPair
	for _, c := range plan {
		op, l, e, m := str(c, "op"), num(c, "l"), num(c, "e"), num(c, "m")
		ev := M{"op": op, "l": l, "e": e, "m": m, "fret": 0, "gret": 0}
		if op == "Reset" {
			p = &listPair{}
			for i := 1; i <= 2; i++ {
				p.fl[i], p.gl[i] = new(lists.List[int]), new(list.List) // zero values
			}
			ev["fpanic"], ev["gpanic"], ev["f"], ev["g"] = "", "", M{}, M{}
			out.Emit(ev)
			continue
		}
		v := 10 + len(p.fe) + 1
		// new elements are registered in creation order: scan both lists for unknown elements after the call
		reg := func() {
			for li := 1; li <= 2; li++ {
				var nf []*lists.Element[int]
				var ng []*list.Element
				n := 0
				for x := p.fl[li].Front(); x != nil && n < 40; x, n = x.Next(), n+1 {
					if p.fid(x) == -1 {
						nf = append(nf, x)
					}
				}
				n = 0
				for x := p.gl[li].Front(); x != nil && n < 40; x, n = x.Next(), n+1 {
					if p.gid(x) == -1 {
						ng = append(ng, x)
					}
				}
				if op == "PushFrontList" { // created back to front
					for i, j := 0, len(nf)-1; i < j; i, j = i+1, j-1 {
						nf[i], nf[j] = nf[j], nf[i]
					}
					for i, j := 0, len(ng)-1; i < j; i, j = i+1, j-1 {
						ng[i], ng[j] = ng[j], ng[i]
					}
				}
				p.fe, p.ge = append(p.fe, nf...), append(p.ge, ng...)
			}
		}
		fE := func(i int) *lists.Element[int] { return p.fe[i-1] }
		gE := func(i int) *list.Element { return p.ge[i-1] }
		ev["fpanic"] = protect(func() {
			L := p.fl[l]
			switch op {
			case "PushFront":
				x := L.PushFront(v)
				p.fe = append(p.fe, x)
				ev["fret"] = p.fid(x)
			case "PushBack":
				x := L.PushBack(v)
				p.fe = append(p.fe, x)
				ev["fret"] = p.fid(x)
			case "InsertBefore":
				x := L.InsertBefore(v, fE(m))
				if x != nil {
					p.fe = append(p.fe, x)
				}
				ev["fret"] = p.fid(x)
			case "InsertAfter":
				x := L.InsertAfter(v, fE(m))
				if x != nil {
					p.fe = append(p.fe, x)
				}
				ev["fret"] = p.fid(x)
			case "Remove":
				ev["fret"] = L.Remove(fE(e))
			case "MoveToFront":
				L.MoveToFront(fE(e))
			case "MoveToBack":
				L.MoveToBack(fE(e))
			case "MoveBefore":
				L.MoveBefore(fE(e), fE(m))
			case "MoveAfter":
				L.MoveAfter(fE(e), fE(m))
			case "PushBackList":
				L.PushBackList(p.fl[m])
			case "PushFrontList":
				L.PushFrontList(p.fl[m])
			case "Init":
				L.Init()
			}
		})
		ev["gpanic"] = protect(func() {
			L := p.gl[l]
			switch op {
			case "PushFront":
				x := L.PushFront(v)
				p.ge = append(p.ge, x)
				ev["gret"] = p.gid(x)
			case "PushBack":
				x := L.PushBack(v)
				p.ge = append(p.ge, x)
				ev["gret"] = p.gid(x)
			case "InsertBefore":
				x := L.InsertBefore(v, gE(m))
				if x != nil {
					p.ge = append(p.ge, x)
				}
				ev["gret"] = p.gid(x)
			case "InsertAfter":
				x := L.InsertAfter(v, gE(m))
				if x != nil {
					p.ge = append(p.ge, x)
				}
				ev["gret"] = p.gid(x)
			case "Remove":
				ev["gret"] = anyInt(L.Remove(gE(e)))
			case "MoveToFront":
				L.MoveToFront(gE(e))
			case "MoveToBack":
				L.MoveToBack(gE(e))
			case "MoveBefore":
				L.MoveBefore(gE(e), gE(m))
			case "MoveAfter":
				L.MoveAfter(gE(e), gE(m))
			case "PushBackList":
				L.PushBackList(p.gl[m])
			case "PushFrontList":
				L.PushFrontList(p.gl[m])
			case "Init":
				L.Init()
			}
		})
		protect(reg)
		var fo, gobs M
		p1 := protect(func() { fo = p.obsF() })
		p2 := protect(func() { gobs = p.obsG() })
		if fo == nil {
			fo = M{"obspanic": p1}
		}
		if gobs == nil {
			gobs = M{"obspanic": p2}
		}
		ev["f"], ev["g"] = fo, gobs
		if fw, ok := fo["fwd"]; ok {
			ev["x"] = fw
		}
		out.Emit(ev)
	}
}

// ---- rings ----
type ringPair struct {
	fr []*lists.Ring[int]
	gr []*ring.Ring
}

func (p *ringPair) fid(r *lists.Ring[int]) int {
	if r == nil {
		return 0
	}
	for i, x := range p.fr {
		if x == r {
			return i + 1
		}
	}
	return -1
}
func (p *ringPair) gid(r *ring.Ring) int {
	if r == nil {
		return 0
	}
	for i, x := range p.gr {
		if x == r {
			return i + 1
		}
	}
	return -1
}

func driveRings(plan []M, out *Out, _ []string) {
	var p *ringPair
	skipToReset := false
	hangs := 0
	for _, c := range plan {
		op, r, q, k := str(c, "op"), num(c, "r"), num(c, "q"), num(c, "k")
		if skipToReset && op != "Reset" {
			continue
		}
		skipToReset = hangs >= 3 // every hang leaves a goroutine spinning for ever: after three the remaining plans are not run
		ev := M{"op": op, "r": r, "q": q, "k": k, "fret": 0, "gret": 0}
		if op == "Reset" {
			p = &ringPair{}
			ev["fpanic"], ev["gpanic"], ev["f"], ev["g"] = "", "", M{}, M{}
			out.Emit(ev)
			continue
		}
		fvisited, gvisited := []int{}, []int{}
		ev["fpanic"] = protect(func() {
			var R, Q *lists.Ring[int]
			if r > 0 {
				R = p.fr[r-1]
			}
			if q > 0 {
				Q = p.fr[q-1]
			}
			switch op {
			case "NewRing":
				x := lists.NewRing[int](k)
				ev["fret"] = 0
				if x != nil {
					ev["fret"] = len(p.fr) + 1
					for i, y := 0, x; i < k; i, y = i+1, y.Next() {
						y.Value = len(p.fr) + 1
						p.fr = append(p.fr, y)
					}
				}
			case "Zero":
				x := new(lists.Ring[int])
				x.Value = len(p.fr) + 1
				p.fr = append(p.fr, x)
				ev["fret"] = len(p.fr)
			case "Next":
				ev["fret"] = p.fid(R.Next())
			case "Prev":
				ev["fret"] = p.fid(R.Prev())
			case "Move":
				ev["fret"] = p.fid(R.Move(k))
			case "Link":
				ev["fret"] = p.fid(R.Link(Q))
			case "Unlink":
				ev["fret"] = p.fid(R.Unlink(k))
			case "DoMut":
				// Do whose callback changes the ring once, when it sees its at-th value: links a fresh node, or another ring, behind
				// the element it is looking at, or unlinks that element's successor (unless that is the ring Do started from)
				seen, done := 0, false
				hung := false
				withWatchdog(3*time.Second, &hung, func() {
					R.Do(func(v int) {
						if len(fvisited) < 5000 { // (a walk that never ends must not produce an endless trace line)
							fvisited = append(fvisited, v)
						}
						seen++
						if done || seen != num(c, "at") || v < 1 || v > len(p.fr) {
							return
						}
						done = true
						x := p.fr[v-1]
						switch str(c, "mut") {
						case "linknew":
							n := new(lists.Ring[int])
							n.Value = len(p.fr) + 1
							p.fr = append(p.fr, n)
							x.Link(n)
						case "link":
							x.Link(Q)
						case "unlink":
							if x.Next() != R {
								x.Unlink(1)
							}
						}
					})
				})
				if hung {
					hangs++
					panic("hang: Do did not return within 3s")
				}
			}
		})
		ev["gpanic"] = protect(func() {
			var R, Q *ring.Ring
			if r > 0 {
				R = p.gr[r-1]
			}
			if q > 0 {
				Q = p.gr[q-1]
			}
			switch op {
			case "NewRing":
				x := ring.New(k)
				ev["gret"] = 0
				if x != nil {
					ev["gret"] = len(p.gr) + 1
					for i, y := 0, x; i < k; i, y = i+1, y.Next() {
						y.Value = len(p.gr) + 1
						p.gr = append(p.gr, y)
					}
				}
			case "Zero":
				x := new(ring.Ring)
				x.Value = len(p.gr) + 1
				p.gr = append(p.gr, x)
				ev["gret"] = len(p.gr)
			case "Next":
				ev["gret"] = p.gid(R.Next())
			case "Prev":
				ev["gret"] = p.gid(R.Prev())
			case "Move":
				ev["gret"] = p.gid(R.Move(k))
			case "Link":
				ev["gret"] = p.gid(R.Link(Q))
			case "Unlink":
				ev["gret"] = p.gid(R.Unlink(k))
			case "DoMut":
				seen, done := 0, false
				hung := false
				withWatchdog(3*time.Second, &hung, func() {
					R.Do(func(a any) {
						v := anyInt(a)
						if len(gvisited) < 5000 {
							gvisited = append(gvisited, v)
						}
						seen++
						if done || seen != num(c, "at") || v < 1 || v > len(p.gr) {
							return
						}
						done = true
						x := p.gr[v-1]
						switch str(c, "mut") {
						case "linknew":
							n := new(ring.Ring)
							n.Value = len(p.gr) + 1
							p.gr = append(p.gr, n)
							x.Link(n)
						case "link":
							x.Link(Q)
						case "unlink":
							if x.Next() != R {
								x.Unlink(1)
							}
						}
					})
				})
				if hung {
					panic("hang: Do did not return within 3s")
				}
			}
		})
		// observe the handles the plan names (observing a zero-value ring would initialise it)
		obs, _ := c["obs"].([]any)
		fo := M{"len": []int{}, "do": [][]int{}, "next": []int{}, "prev": []int{}}
		gobs := M{"len": []int{}, "do": [][]int{}, "next": []int{}, "prev": []int{}}
		hung := false
		withWatchdog(3*time.Second, &hung, func() {
			ln, do, nx, pv := []int{}, [][]int{}, []int{}, []int{}
			for i, x := range p.fr {
				if i < len(obs) && obs[i] == true {
					d := []int{}
					x.Do(func(v int) {
						if len(d) < 5000 {
							d = append(d, v)
						}
					})
					ln, do, nx, pv = append(ln, x.Len()), append(do, d), append(nx, p.fid(x.Next())), append(pv, p.fid(x.Prev()))
				} else {
					ln, do, nx, pv = append(ln, 0), append(do, []int{}), append(nx, 0), append(pv, 0)
				}
			}
			fo = M{"len": ln, "do": do, "next": nx, "prev": pv}
		})
		if hung {
			// a corrupted ring can make Len/Do loop for ever: recorded, and the rest of this plan is skipped
			hangs++
			ev["fpanic"] = "hang: observation did not return within 3s"
			ev["f"], ev["g"] = M{"hang": true}, M{"hang": false}
			out.Emit(ev)
			skipToReset = true
			continue
		}
		protect(func() {
			ln, do, nx, pv := []int{}, [][]int{}, []int{}, []int{}
			for i, x := range p.gr {
				if i < len(obs) && obs[i] == true {
					d := []int{}
					x.Do(func(v any) {
						if len(d) < 5000 {
							d = append(d, anyInt(v))
						}
					})
					ln, do, nx, pv = append(ln, x.Len()), append(do, d), append(nx, p.gid(x.Next())), append(pv, p.gid(x.Prev()))
				} else {
					ln, do, nx, pv = append(ln, 0), append(do, []int{}), append(nx, 0), append(pv, 0)
				}
			}
			gobs = M{"len": ln, "do": do, "next": nx, "prev": pv}
		})
		fo["visited"], gobs["visited"] = fvisited, gvisited
		ev["f"], ev["g"] = fo, gobs
		ev["x"] = fo["do"]
		out.Emit(ev)
	}
}

// anyInt maps the standard library's interface-typed values to int (a nil interface, e.g. the sentinel's value, is the zero value).
func anyInt(v any) int {
	if i, ok := v.(int); ok {
		return i
	}
	return 0
}

// withWatchdog runs f (panics recovered) on its own goroutine and gives up after d: *hung is set and the goroutine abandoned.
func withWatchdog(d time.Duration, hung *bool, f func()) {
	done := make(chan struct{})
	go func() {
		defer close(done)
		protect(f)
	}()
	if _, ok := patientRecv(done, d); !ok {
		*hung = true
	}
}
