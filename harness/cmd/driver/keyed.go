package main

import (
	"time"

	"gopkg.in/typ.v4/sync2"
)

// C09: sync2.KeyedMutex / KeyedRWMutex under the controlled scheduler.
// call = {"op": Lock|Unlock|TryLock|UnlockIf | WLock|WUnlock|TryWLock|WUnlockIf|RLock|RUnlock|TryRLock|RUnlockIf | Wait, "k": key,
//
//	"wt": thread, "wn": count}   (Wait: start only after thread wt has completed wn calls -- a gate, not a call)
//
// A per-key occupancy counter kept by the harness (incremented right after an acquisition returns, decremented right
// before the release is called) is logged with every acquisition: an independent witness of exclusion.
func init() { comps["keyed"] = driveKeyed }

type keyedWorld struct {
	km   sync2.KeyedMutex[int]
	rw   sync2.KeyedRWMutex[int]
	occW map[int]int // writers inside, per key (both kinds of mutex share the map: programs use one kind per key)
	occR map[int]int
	got  map[int]map[string]bool // per thread: did the last Try on (kind,key) succeed
}

func (w *keyedWorld) call(t int, c M) Call {
	op, kid := str(c, "op"), num(c, "k")
	k := kid - 1 // key ids 1, 2 in the trace are the Go keys 0, 1
	desc := M{"op": op, "k": kid, "v": 0}
	if op == "Wait" {
		wt, wn := num(c, "wt"), num(c, "wn")
		return Call{Desc: M{"op": op, "k": 0, "v": 0, "wt": wt, "wn": wn}, Fn: func() M { return M{"rv": 0, "rok": true, "rep": []int{}} },
			Gate: func(done map[int]int) bool { return done[wt] >= wn }}
	}
	key := func(kind string) string { return kind + ":" + string(rune('0'+k)) }
	return Call{Desc: desc, Fn: func() M {
		r := M{"rv": 0, "rok": true, "rep": []int{}}
		g := w.got[t]
		switch op {
		case "ClearKey": // only ever planned while nobody holds or awaits the key
			w.km.ClearKey(k)
		case "WClearKey":
			w.rw.ClearKey(k)
		case "Lock":
			w.km.LockKey(k)
			w.occW[k]++
			r["rv"] = w.occW[k]
		case "TryLock":
			ok := w.km.TryLockKey(k)
			g[key("m")] = ok
			if ok {
				w.occW[k]++
			}
			r["rok"], r["rv"] = ok, w.occW[k]
		case "Unlock":
			w.occW[k]--
			w.km.UnlockKey(k)
		case "UnlockIf":
			if g[key("m")] {
				w.occW[k]--
				w.km.UnlockKey(k)
			} else {
				r["rok"] = false
			}
		case "WLock":
			w.rw.LockKey(k)
			w.occW[k]++
			r["rv"] = w.occW[k] + 100*w.occR[k]
		case "TryWLock":
			ok := w.rw.TryLockKey(k)
			g[key("w")] = ok
			if ok {
				w.occW[k]++
			}
			r["rok"], r["rv"] = ok, w.occW[k]+100*w.occR[k]
		case "WUnlock":
			w.occW[k]--
			w.rw.UnlockKey(k)
		case "WUnlockIf":
			if g[key("w")] {
				w.occW[k]--
				w.rw.UnlockKey(k)
			} else {
				r["rok"] = false
			}
		case "RLock":
			w.rw.RLockKey(k)
			w.occR[k]++
			r["rv"] = w.occW[k]
		case "TryRLock":
			ok := w.rw.TryRLockKey(k)
			g[key("r")] = ok
			if ok {
				w.occR[k]++
			}
			r["rok"], r["rv"] = ok, w.occW[k]
		case "RUnlock":
			w.occR[k]--
			w.rw.RUnlockKey(k)
		case "RUnlockIf":
			if g[key("r")] {
				w.occR[k]--
				w.rw.RUnlockKey(k)
			} else {
				r["rok"] = false
			}
		}
		return r
	}}
}

func driveKeyed(plan []M, out *Out, _ []string) {
	driveWorld(plan, out, func(p M) *world {
		w := &keyedWorld{occW: map[int]int{}, occR: map[int]int{}, got: map[int]map[string]bool{}}
		tid := 0
		return &world{
			stepTO: 1500 * time.Millisecond, freeTO: 3 * time.Second,
			calls: func(v any) []Call {
				// called once for the set-up thread (id 9) and once per program thread, in order
				a, _ := v.([]any)
				t := 9
				if tid > 0 {
					t = tid
				}
				tid++
				if w.got[t] == nil {
					w.got[t] = map[string]bool{}
				}
				out := []Call{}
				for _, x := range a {
					out = append(out, w.call(t, x.(M)))
				}
				return out
			},
		}
	})
}
