package main

import (
	"strconv"

	"gopkg.in/typ.v4/lists"
)

// C16: lists.Queue / lists.Stack from the zero value.
func init() { comps["queue"] = driveQueue }

// Element types per plan (chosen by its Reset line): int; "empty" = struct{} (size 0: every value is the same value, written
// 0); "big" = a 200-byte array (only its first cell carries the value); "string" ("" for 0).
func driveQueue(plan []M, out *Out, _ []string) {
	i := 0
	for i < len(plan) {
		j := i + 1
		for j < len(plan) && str(plan[j], "op") != "Reset" {
			j++
		}
		switch str(plan[i], "ty") {
		case "empty":
			driveQueueT(plan[i:j], out, func(int) struct{} { return struct{}{} }, func(struct{}) int { return 0 })
		case "big":
			driveQueueT(plan[i:j], out, func(v int) [25]int { return [25]int{v} }, func(x [25]int) int { return x[0] })
		case "string":
			driveQueueT(plan[i:j], out, func(v int) string {
				if v == 0 {
					return ""
				}
				return strconv.Itoa(v)
			}, func(x string) int { v, _ := strconv.Atoi(x); return v })
		default:
			driveQueueT(plan[i:j], out, func(v int) int { return v }, func(v int) int { return v })
		}
		i = j
	}
}

func driveQueueT[T any](plan []M, out *Out, to func(int) T, from func(T) int) {
	var q *lists.Queue[T]
	var s *lists.Stack[T]
	kind := "queue"
	ret := func(e M, v T, ok bool) { e["ret"], e["ok"] = from(v), ok }
	for _, c := range plan {
		op := str(c, "op")
		e := M{"op": op, "arg": num(c, "arg"), "ret": 0, "ok": true, "len": 0, "pv": 0, "pok": false, "panic": ""}
		if op == "Reset" {
			kind = str(c, "kind")
			q, s = new(lists.Queue[T]), new(lists.Stack[T])
			e["kind"] = kind
			out.Emit(e)
			continue
		}
		e["panic"] = protect(func() {
			switch op {
			case "Enqueue":
				q.Enqueue(to(num(c, "arg")))
			case "Dequeue":
				v, ok := q.Dequeue()
				ret(e, v, ok)
			case "Push":
				s.Push(to(num(c, "arg")))
			case "Pop":
				v, ok := s.Pop()
				ret(e, v, ok)
			case "Peek":
				if kind == "queue" {
					v, ok := q.Peek()
					ret(e, v, ok)
				} else {
					v, ok := s.Peek()
					ret(e, v, ok)
				}
			}
		})
		p2 := protect(func() {
			if kind == "queue" {
				e["len"] = q.Len()
				v, ok := q.Peek()
				e["pv"], e["pok"] = from(v), ok
			} else {
				e["len"] = len(*s)
				v, ok := s.Peek()
				e["pv"], e["pok"] = from(v), ok
			}
		})
		if e["panic"] == "" {
			e["panic"] = p2
		}
		out.Emit(e)
	}
}
