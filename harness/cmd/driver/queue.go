package main

import "gopkg.in/typ.v4/lists"

// C16: lists.Queue / lists.Stack from the zero value.
func init() { comps["queue"] = driveQueue }

func driveQueue(plan []M, out *Out, _ []string) {
	var q *lists.Queue[int]
	var s *lists.Stack[int]
	kind := "queue"
	for _, c := range plan {
		op := str(c, "op")
		e := M{"op": op, "arg": num(c, "arg"), "ret": 0, "ok": true, "len": 0, "pv": 0, "pok": false, "panic": ""}
		if op == "Reset" {
			kind = str(c, "kind")
			q, s = new(lists.Queue[int]), new(lists.Stack[int])
			e["kind"] = kind
			out.Emit(e)
			continue
		}
		e["panic"] = protect(func() {
			switch op {
			case "Enqueue":
				q.Enqueue(num(c, "arg"))
			case "Dequeue":
				e["ret"], e["ok"] = q.Dequeue()
			case "Push":
				s.Push(num(c, "arg"))
			case "Pop":
				e["ret"], e["ok"] = s.Pop()
			case "Peek":
				if kind == "queue" {
					e["ret"], e["ok"] = q.Peek()
				} else {
					e["ret"], e["ok"] = s.Peek()
				}
			}
		})
		p2 := protect(func() {
			if kind == "queue" {
				e["len"] = q.Len()
				e["pv"], e["pok"] = q.Peek()
			} else {
				e["len"] = len(*s)
				e["pv"], e["pok"] = s.Peek()
			}
		})
		if e["panic"] == "" {
			e["panic"] = p2
		}
		out.Emit(e)
	}
}
