package main

import (
	"fmt"

	"gopkg.in/typ.v4/avl"
)

// C01 / C02: avl.Tree over int, string and a struct type with a key-only comparator.
func init() { comps["avl"] = driveAVL }

type avlKV struct {
	Key int
	Pad string
}

type avlOps struct {
	reset    func()
	add      func(which, v int)
	remove   func(which, v int) bool
	contains func(which, v int) bool
	clear    func(which int)
	clone    func(src, dst int)
	obs      func(which int, full bool, nv int) M
	cmps     func() int
}

func mkAVL[T comparable](verbatim bool, to func(int) T, from func(T) int, cmp func(a, b T) int) *avlOps {
	n := 0
	counting := func(a, b T) int { n++; return cmp(a, b) }
	return mkAVLWith(verbatim, to, from, func() avl.Tree[T] { return avl.New(counting) }, &n)
}

// mkAVLWith: the trees come from mk (avl.New with a counting comparator, or avl.NewOrdered with the package's own comparator).
func mkAVLWith[T comparable](verbatim bool, to func(int) T, from func(T) int, mk func() avl.Tree[T], np *int) *avlOps {
	var t [3]avl.Tree[T]
	walk := func(f func(func(T))) []int {
		out := []int{}
		f(func(v T) { out = append(out, from(v)) })
		return out
	}
	sl := func(s []T) []int {
		out := []int{}
		for _, v := range s {
			out = append(out, from(v))
		}
		return out
	}
	o := &avlOps{}
	o.reset = func() { t[0], t[1], t[2] = mk(), mk(), mk(); *np = 0 }
	o.add = func(w, v int) { t[w].Add(to(v)) }
	o.remove = func(w, v int) bool { return t[w].Remove(to(v)) }
	o.contains = func(w, v int) bool { return t[w].Contains(to(v)) }
	o.clear = func(w int) { t[w].Clear() }
	o.clone = func(src, dst int) { t[dst] = t[src].Clone() }
	o.cmps = func() int { c := *np; *np = 0; return c }
	o.obs = func(w int, full bool, nv int) M {
		m := M{"len": t[w].Len(), "pre": []int{}, "ino": []int{}, "post": []int{}, "wpre": []int{}, "wino": []int{}, "wpost": []int{},
			"has": []bool{}, "str": ""}
		if !full {
			return m
		}
		m["pre"], m["ino"], m["post"] = sl(t[w].SlicePreOrder()), sl(t[w].SliceInOrder()), sl(t[w].SlicePostOrder())
		m["wpre"], m["wino"], m["wpost"] = walk(t[w].WalkPreOrder), walk(t[w].WalkInOrder), walk(t[w].WalkPostOrder)
		has := make([]bool, nv)
		for v := 1; v <= nv; v++ {
			has[v-1] = t[w].Contains(to(v))
		}
		m["has"] = has
		if verbatim {
			m["str"] = t[w].String()
		} else {
			m["str"] = fmt.Sprint(m["ino"]) // String() formats the element type; for non-int types the in-order listing stands in
		}
		return m
	}
	return o
}

func driveAVL(plan []M, out *Out, _ []string) {
	intOps := mkAVL(true, func(v int) int { return v }, func(v int) int { return v }, func(a, b int) int {
		if a < b {
			return -1
		} else if a > b {
			return 1
		}
		return 0
	})
	strOps := mkAVL(false, func(v int) string { return fmt.Sprintf("%05d", v) }, func(s string) int { var v int; fmt.Sscanf(s, "%d", &v); return v },
		func(a, b string) int {
			if a < b {
				return -1
			} else if a > b {
				return 1
			}
			return 0
		})
	kvOps := mkAVL(false, func(v int) avlKV { return avlKV{v, fmt.Sprint("p", v)} }, func(k avlKV) int { return k.Key },
		func(a, b avlKV) int { return a.Key - b.Key })
	// float64 elements v + 0.5 (scaled so that the order is the order of v) through NewOrdered, i.e. typ.Compare
	zero := 0
	ordOps := mkAVLWith(false, func(v int) float64 { return float64(v)/4 - 0.125 }, func(f float64) int { return int((f + 0.125) * 4) },
		func() avl.Tree[float64] { return avl.NewOrdered[float64]() }, &zero)
	ops := intOps
	nv := 0
	live := [3]bool{true, false, false}
	empty := func() M {
		return M{"len": 0, "pre": []int{}, "ino": []int{}, "post": []int{}, "wpre": []int{}, "wino": []int{}, "wpost": []int{}, "has": []bool{}, "str": ""}
	}
	for _, c := range plan {
		op, arg := str(c, "op"), num(c, "arg")
		w, src, dst := num(c, "w"), num(c, "src"), num(c, "dst") // trees are numbered 1..3 in the trace
		if w == 0 {
			w = 1
		}
		full := true
		if v, ok := c["full"]; ok {
			full = v.(bool)
		}
		e := M{"op": op, "arg": arg, "ret": false, "full": full, "w": w, "src": src, "dst": dst}
		if op == "Reset" {
			nv, live = num(c, "nv"), [3]bool{true, false, false}
			switch str(c, "ty") {
			case "string":
				ops = strOps
			case "struct":
				ops = kvOps
			case "ordered":
				ops = ordOps
			default:
				ops = intOps
			}
			ops.reset()
			e["nv"], e["ty"] = nv, str(c, "ty")
			out.Emit(e)
			continue
		}
		ops.cmps()
		e["panic"] = protect(func() {
			switch op {
			case "Add":
				ops.add(w-1, arg)
				e["ret"] = true
			case "Remove":
				e["ret"] = ops.remove(w-1, arg)
			case "Contains":
				e["ret"] = ops.contains(w-1, arg)
			case "Clear":
				ops.clear(w - 1)
				e["ret"] = true
			case "Clone":
				ops.clone(src-1, dst-1)
				live[dst-1] = true
				e["ret"] = true
			}
		})
		e["cmps"] = ops.cmps()
		ts := []M{}
		p2 := protect(func() {
			for i := 0; i < 3; i++ {
				if live[i] {
					ts = append(ts, ops.obs(i, full, nv))
				} else {
					ts = append(ts, empty())
				}
			}
		})
		if e["panic"] == "" && p2 != "" {
			e["panic"] = "observation: " + p2
		}
		for len(ts) < 3 {
			x := empty()
			x["len"] = -1
			ts = append(ts, x)
		}
		e["t"], e["live"] = ts, []bool{live[0], live[1], live[2]}
		e["xpre"], e["xpre2"] = ts[0]["pre"], ts[1]["pre"]
		out.Emit(e)
	}
}
