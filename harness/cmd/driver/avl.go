package main

import (
	"fmt"

	"gopkg.in/typ.v4/avl"
)

// C01 / C02: avl.Tree over int, string and a struct type with a key-only comparator.
func init() { comps["avl"] = driveAVL }

type avlKV struct {
	Key int
	Pad string
}

type avlOps struct {
	reset    func()
	add      func(which, v int)
	remove   func(which, v int) bool
	contains func(v int) bool
	clear    func()
	clone    func()
	obs      func(which int, full bool, nv int) M
	cmps     func() int
}

func mkAVL[T comparable](verbatim bool, to func(int) T, from func(T) int, cmp func(a, b T) int) *avlOps {
	var t [2]avl.Tree[T]
	n := 0
	counting := func(a, b T) int { n++; return cmp(a, b) }
	walk := func(f func(func(T))) []int {
		out := []int{}
		f(func(v T) { out = append(out, from(v)) })
		return out
	}
	sl := func(s []T) []int {
		out := []int{}
		for _, v := range s {
			out = append(out, from(v))
		}
		return out
	}
	o := &avlOps{}
	o.reset = func() { t[0], t[1] = avl.New(counting), avl.New(counting); n = 0 }
	o.add = func(w, v int) { t[w].Add(to(v)) }
	o.remove = func(w, v int) bool { return t[w].Remove(to(v)) }
	o.contains = func(v int) bool { return t[0].Contains(to(v)) }
	o.clear = func() { t[0].Clear() }
	o.clone = func() { t[1] = t[0].Clone() }
	o.cmps = func() int { c := n; n = 0; return c }
	o.obs = func(w int, full bool, nv int) M {
		m := M{"len": t[w].Len(), "pre": []int{}, "ino": []int{}, "post": []int{}, "wpre": []int{}, "wino": []int{}, "wpost": []int{},
			"has": []bool{}, "str": ""}
		if !full {
			return m
		}
		m["pre"], m["ino"], m["post"] = sl(t[w].SlicePreOrder()), sl(t[w].SliceInOrder()), sl(t[w].SlicePostOrder())
		m["wpre"], m["wino"], m["wpost"] = walk(t[w].WalkPreOrder), walk(t[w].WalkInOrder), walk(t[w].WalkPostOrder)
		has := make([]bool, nv)
		for v := 1; v <= nv; v++ {
			has[v-1] = t[w].Contains(to(v))
		}
		m["has"] = has
		if verbatim {
			m["str"] = t[w].String()
		} else {
			m["str"] = fmt.Sprint(m["ino"]) // String() formats the element type; for non-int types the in-order listing stands in
		}
		return m
	}
	return o
}

func driveAVL(plan []M, out *Out, _ []string) {
	intOps := mkAVL(true, func(v int) int { return v }, func(v int) int { return v }, func(a, b int) int {
		if a < b {
			return -1
		} else if a > b {
			return 1
		}
		return 0
	})
	strOps := mkAVL(false, func(v int) string { return fmt.Sprintf("%05d", v) }, func(s string) int { var v int; fmt.Sscanf(s, "%d", &v); return v },
		func(a, b string) int {
			if a < b {
				return -1
			} else if a > b {
				return 1
			}
			return 0
		})
	kvOps := mkAVL(false, func(v int) avlKV { return avlKV{v, fmt.Sprint("p", v)} }, func(k avlKV) int { return k.Key },
		func(a, b avlKV) int { return a.Key - b.Key })
	ops := intOps
	nv := 0
	hasb := false
	for _, c := range plan {
		op, arg := str(c, "op"), num(c, "arg")
		full := true
		if v, ok := c["full"]; ok {
			full = v.(bool)
		}
		e := M{"op": op, "arg": arg, "ret": false, "full": full}
		if op == "Reset" {
			nv, hasb = num(c, "nv"), false
			switch str(c, "ty") {
			case "string":
				ops = strOps
			case "struct":
				ops = kvOps
			default:
				ops = intOps
			}
			ops.reset()
			e["nv"], e["ty"] = nv, str(c, "ty")
			out.Emit(e)
			continue
		}
		ops.cmps()
		e["panic"] = protect(func() {
			switch op {
			case "Add":
				ops.add(0, arg)
				e["ret"] = true
			case "Remove":
				e["ret"] = ops.remove(0, arg)
			case "Add2":
				ops.add(1, arg)
				e["ret"] = true
			case "Remove2":
				e["ret"] = ops.remove(1, arg)
			case "Contains":
				e["ret"] = ops.contains(arg)
			case "Clear":
				ops.clear()
				e["ret"] = true
			case "Clone":
				ops.clone()
				hasb = true
				e["ret"] = true
			}
		})
		e["cmps"] = ops.cmps()
		var oa, ob M
		p2 := protect(func() { oa = ops.obs(0, full, nv); ob = ops.obs(1, full && hasb, nv) })
		if e["panic"] == "" && p2 != "" {
			e["panic"] = "observation: " + p2
		}
		if oa == nil || ob == nil {
			oa = M{"len": -1, "pre": []int{}, "ino": []int{}, "post": []int{}, "wpre": []int{}, "wino": []int{}, "wpost": []int{}, "has": []bool{}, "str": ""}
			ob = oa
		}
		e["a"], e["b"], e["hasb"] = oa, ob, hasb
		e["xpre"], e["xpre2"] = oa["pre"], ob["pre"]
		out.Emit(e)
	}
}
