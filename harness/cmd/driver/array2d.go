package main

import "gopkg.in/typ.v4/arrays"

// C08: arrays.Array2D.
func init() { comps["array2d"] = driveArray2D }

func driveArray2D(plan []M, out *Out, _ []string) {
	var a, b arrays.Array2D[int]
	var win []int
	hasB := false
	grid := func(a arrays.Array2D[int]) [][]int {
		g := [][]int{}
		for y := 0; y < a.Height(); y++ {
			row := []int{}
			for x := 0; x < a.Width(); x++ {
				v := -1
				protect(func() { v = a.Get(x, y) })
				row = append(row, v)
			}
			g = append(g, row)
		}
		return g
	}
	for _, c := range plan {
		op := str(c, "op")
		w, h, x1, y1, x2, y2, v := num(c, "w"), num(c, "h"), num(c, "x1"), num(c, "y1"), num(c, "x2"), num(c, "y2"), num(c, "v")
		e := M{"op": op, "w": w, "h": h, "x1": x1, "y1": y1, "x2": x2, "y2": y2, "v": v, "lens": nz(ints(c, "lens")), "ret": 0}
		if op == "Reset" {
			a, b, win, hasB = arrays.Array2D[int]{}, arrays.Array2D[int]{}, nil, false
			out.Emit(e)
			continue
		}
		e["panic"] = protect(func() {
			switch op {
			case "New":
				a, win, hasB = arrays.New2D[int](w, h), nil, false
				for y := 0; y < h; y++ {
					for x := 0; x < w; x++ {
						a.Set(x, y, 1+x+y*w)
					}
				}
			case "NewFilled":
				a, win, hasB = arrays.New2DFilled(w, h, v), nil, false
			case "NewJagged":
				win, hasB = nil, false
				lens := ints(c, "lens")
				jag := make([][]int, len(lens))
				for y, n := range lens {
					jag[y] = make([]int, n)
					for x := range jag[y] {
						jag[y][x] = 100 + 10*y + x
					}
				}
				a = arrays.Array2D[int]{}
				a = arrays.New2DFromJagged(w, h, jag)
			case "Set":
				a.Set(x1, y1, v)
			case "Get":
				e["ret"] = a.Get(x1, y1)
			case "Row":
				win = a.Row(y1)
			case "RowSpan":
				win = a.RowSpan(x1, x2, y1)
			case "WinSet":
				win[x1] = v
			case "Fill":
				a.Fill(x1, y1, x2, y2, v)
			case "Clone":
				b, hasB = a.Clone(), true
			case "SetB":
				b.Set(x1, y1, v)
			}
		})
		e["grid"] = grid(a)
		if hasB {
			e["cgrid"] = grid(b)
		} else {
			e["cgrid"] = []int{}
		}
		e["win"] = nz(append([]int(nil), win...))
		e["width"], e["height"] = a.Width(), a.Height()
		s := ""
		p2 := protect(func() { s = a.String() })
		if p2 != "" {
			s = "panic: " + p2
		}
		e["str"] = s
		e["x"] = e["grid"]
		out.Emit(e)
	}
}
