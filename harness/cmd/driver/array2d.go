package main

import (
	"math"
	"strconv"

	"gopkg.in/typ.v4/arrays"
)

// C08: arrays.Array2D.
func init() { comps["array2d"] = driveArray2D }

func driveArray2D(plan []M, out *Out, _ []string) {
	// element type per plan (chosen by its Reset line): int, or string with "" for 0 and "s<v>" otherwise
	i := 0
	for i < len(plan) {
		j := i + 1
		for j < len(plan) && str(plan[j], "op") != "Reset" {
			j++
		}
		if str(plan[i], "ty") == "string" {
			driveArray2DT(plan[i:j], out, "string", func(v int) string {
				if v == 0 {
					return ""
				}
				return "s" + strconv.Itoa(v)
			}, func(x string) int {
				if x == "" {
					return 0
				}
				v, _ := strconv.Atoi(x[1:])
				return v
			})
		} else if str(plan[i], "ty") == "float" { // -1000 stands for negative zero (prints "-0")
			driveArray2DT(plan[i:j], out, "float", func(v int) float64 {
				if v == -1000 {
					return math.Copysign(0, -1)
				}
				return float64(v)
			}, func(x float64) int {
				if x == 0 && math.Signbit(x) {
					return -1000
				}
				return int(x)
			})
		} else if str(plan[i], "ty") == "ptr" { // pointers to structs: &{v v+1}, nil for 0
			type pr struct{ A, B int }
			driveArray2DT(plan[i:j], out, "ptr", func(v int) *pr {
				if v == 0 {
					return nil
				}
				return &pr{v, v + 1}
			}, func(x *pr) int {
				if x == nil {
					return 0
				}
				return x.A
			})
		} else if str(plan[i], "ty") == "slice" { // an element type that cannot be compared: []int{v}, nil for 0
			driveArray2DT(plan[i:j], out, "slice", func(v int) []int {
				if v == 0 {
					return nil
				}
				return []int{v}
			}, func(x []int) int {
				if x == nil {
					return 0
				}
				return x[0]
			})
		} else {
			driveArray2DT(plan[i:j], out, "int", func(v int) int { return v }, func(v int) int { return v })
		}
		i = j
	}
}

func driveArray2DT[T any](plan []M, out *Out, ty string, to func(int) T, from func(T) int) {
	var a, b arrays.Array2D[T]
	var win []T
	hasB := false
	grid := func(a arrays.Array2D[T]) [][]int {
		g := [][]int{}
		for y := 0; y < a.Height(); y++ {
			row := []int{}
			for x := 0; x < a.Width(); x++ {
				v := -1
				protect(func() { v = from(a.Get(x, y)) })
				row = append(row, v)
			}
			g = append(g, row)
		}
		return g
	}
	for _, c := range plan {
		op := str(c, "op")
		w, h, x1, y1, x2, y2, v := num(c, "w"), num(c, "h"), num(c, "x1"), num(c, "y1"), num(c, "x2"), num(c, "y2"), num(c, "v")
		e := M{"op": op, "w": w, "h": h, "x1": x1, "y1": y1, "x2": x2, "y2": y2, "v": v, "lens": nz(ints(c, "lens")), "ret": 0}
		// extreme coordinates: {"huge": {"y1": "minint"}} replaces the coordinate by a 64-bit extreme (the trace keeps +-2^30:
		// TLC integers are 32-bit and all the validator needs is "outside the bounds, on which side")
		if hg, ok := c["huge"].(M); ok {
			for name, p := range map[string]*int{"x1": &x1, "y1": &y1, "x2": &x2, "y2": &y2} {
				if kind := str(hg, name); kind != "" {
					*p = hugeCoord(kind, a.Width())
					switch {
					case *p <= -(1 << 30):
						e[name] = -(1 << 30)
					case *p >= 1<<30:
						e[name] = 1 << 30
					default: // (k times the inverse of width k is 1)
						e[name] = *p
					}
					e["huge_"+name] = kind
				}
			}
		}
		if op == "Reset" {
			a, b, win, hasB = arrays.Array2D[T]{}, arrays.Array2D[T]{}, nil, false
			e["ty"] = ty
			out.Emit(e)
			continue
		}
		e["panic"] = protect(func() {
			switch op {
			case "New":
				a, win, hasB = arrays.New2D[T](w, h), nil, false
				for y := 0; y < h; y++ {
					for x := 0; x < w; x++ {
						a.Set(x, y, to(1+x+y*w))
					}
				}
			case "NewFilled":
				a, win, hasB = arrays.New2DFilled(w, h, to(v)), nil, false
			case "NewJagged":
				win, hasB = nil, false
				lens := ints(c, "lens")
				jag := make([][]T, len(lens))
				for y, n := range lens {
					jag[y] = make([]T, n)
					for x := range jag[y] {
						jag[y][x] = to(100 + 10*y + x)
					}
				}
				a = arrays.Array2D[T]{}
				a = arrays.New2DFromJagged(w, h, jag)
			case "Set":
				a.Set(x1, y1, to(v))
			case "Get":
				e["ret"] = from(a.Get(x1, y1))
			case "Row":
				win = a.Row(y1)
			case "RowSpan":
				win = a.RowSpan(x1, x2, y1)
			case "WinSet":
				win[x1] = to(v)
			case "Fill":
				a.Fill(x1, y1, x2, y2, to(v))
			case "Clone":
				b, hasB = a.Clone(), true
			case "SetB":
				b.Set(x1, y1, to(v))
			}
		})
		e["grid"] = grid(a)
		if hasB {
			e["cgrid"] = grid(b)
		} else {
			e["cgrid"] = []int{}
		}
		wv := []int{}
		for _, x := range win {
			wv = append(wv, from(x))
		}
		e["win"], e["ty"] = wv, ty
		e["width"], e["height"] = a.Width(), a.Height()
		s := ""
		p2 := protect(func() { s = a.String() })
		if p2 != "" {
			s = "panic: " + p2
		}
		e["str"] = s
		e["x"] = e["grid"]
		out.Emit(e)
	}
}

// hugeCoord: coordinates far outside any array, chosen so that index arithmetic that wraps around lands inside again:
// multiples of 2^k (times an even width = 0 mod 2^64) and multiples of the modular inverse of an odd width.
func hugeCoord(kind string, width int) int {
	const minInt = -1 << 63
	switch kind {
	case "minint":
		return minInt
	case "minint1":
		return minInt + 1
	case "maxint":
		return 1<<63 - 1
	case "maxint1":
		return 1<<63 - 2
	case "p62":
		return 1 << 62
	case "m62":
		return -(1 << 62)
	case "p61":
		return 1 << 61
	case "m61":
		return -(1 << 61)
	case "p60":
		return 1 << 60
	case "p32":
		return 1 << 32
	case "m32":
		return -(1 << 32)
	case "p31":
		return 1 << 31
	case "wrap": // smallest positive y with y*width = 0 mod 2^64 (even widths), else 2^63
		tz := 0
		for w := width; w > 0 && w%2 == 0; w /= 2 {
			tz++
		}
		if tz == 0 || tz > 62 {
			return minInt
		}
		return int(uint64(1) << uint(64-tz))
	case "inv1", "inv2", "inv3": // k times the inverse of the width modulo 2^64 (odd widths): y*width = k mod 2^64
		if width%2 == 0 || width <= 0 {
			return minInt + 2
		}
		inv := uint64(width) // Newton iteration for the inverse modulo 2^64
		for i := 0; i < 6; i++ {
			inv *= 2 - uint64(width)*inv
		}
		k := uint64(kind[3] - '0')
		return int(inv * k)
	}
	return 1<<63 - 1
}
