package main

import (
	"runtime"
	"strings"
	"sync"
	"time"

	"gopkg.in/typ.v4/sync2"
)

// C17: Once1/2/3.  Scenario: {"arity":1|2|3,"before":a,"during":b,"after":c}
//
//	a callers call Do at the same moment (one of them will run its function, which blocks on a gate),
//	b more callers call Do while the function is still running (they must wait),
//	the gate is opened, then c callers call Do after completion.  Caller t passes function t.
func init() { comps["once"] = driveOnce }

// countParked counts goroutines parked inside sync.(*Once).doSlow (waiting for the running function).
func countParkedInOnce() int {
	buf := make([]byte, 1<<20)
	n := runtime.Stack(buf, true)
	c := 0
	for _, g := range strings.Split(string(buf[:n]), "\n\n") {
		hdr := g
		if i := strings.IndexByte(g, '\n'); i >= 0 {
			hdr = g[:i]
		}
		if strings.Contains(g, "sync.(*Once).doSlow") && (strings.Contains(hdr, "[sync.Mutex") || strings.Contains(hdr, "[semacquire")) {
			c++
		}
	}
	return c
}

func driveOnce(plan []M, out *Out, _ []string) {
	for _, sc := range plan {
		if n := num(sc, "burst"); n > 0 {
			onceBurst(sc, out, n)
			if onceAbandoned {
				return
			}
			continue
		}
		arity, before, during, after := num(sc, "arity"), num(sc, "before"), num(sc, "during"), num(sc, "after")
		nilf := boolean(sc, "nilf") // the callers arriving during / after the run pass a nil function (it must never be called)
		var mu sync.Mutex
		log := func(e M) { mu.Lock(); out.Emit(e); mu.Unlock() }
		log(M{"ev": "reset", "arity": arity})
		var o1 sync2.Once1[int]
		var o2 sync2.Once2[int, int]
		var o3 sync2.Once3[int, int, int]
		var o2e sync2.Once2[int, error] // trailing result is a non-nil error value
		var o3e sync2.Once3[int, int, error]
		var o1e sync2.Once1[error]
		errTyped := boolean(sc, "err")
		zeroRes := boolean(sc, "zero") // the function returns zero values, nil interfaces included (Once1[error], Once2[int, any], ...)
		var z1 sync2.Once1[error]
		var z2 sync2.Once2[int, any]
		var z3 sync2.Once3[int, error, any]
		gate := make(chan struct{})
		inF := make(chan int, 16)
		effect := 0 // plain variable written as the function's last statement
		var wg sync.WaitGroup
		fn := func(t int) func() {
			return func() {
				log(M{"ev": "fstart", "f": t})
				inF <- t
				<-gate
				log(M{"ev": "fend", "f": t})
				effect = t
			}
		}
		onceCaller := func(t int) {
			defer wg.Done()
			log(M{"ev": "invoke", "t": t})
			body := fn(t)
			if nilf && t > before {
				var vals []int
				switch arity {
				case 1:
					vals = []int{o1.Do(nil)}
				case 2:
					a, b := o2.Do(nil)
					vals = []int{a, b}
				default:
					a, b, c := o3.Do(nil)
					vals = []int{a, b, c}
				}
				log(M{"ev": "ret", "t": t, "vals": vals, "effect": effect, "zero": false})
				return
			}
			var vals []int
			unerr := func(e error) int {
				if x, ok := e.(idErr); ok {
					return int(x)
				}
				return 0
			}
			isNil := func(x any) int {
				if x == nil {
					return 0
				}
				return -7
			}
			switch {
			case zeroRes:
				if p := protect(func() {
					switch arity {
					case 1:
						a := z1.Do(func() error { body(); return nil })
						vals = []int{isNil(a)}
					case 2:
						a, b := z2.Do(func() (int, any) { body(); return 0, nil })
						vals = []int{a, isNil(b)}
					default:
						a, b, c := z3.Do(func() (int, error, any) { body(); return 0, nil, nil })
						vals = []int{a, isNil(b), isNil(c)}
					}
				}); p != "" {
					log(M{"ev": "ret", "t": t, "vals": []int{-9}, "effect": effect, "zero": true, "panic": p})
					return
				}
			case arity == 1 && errTyped:
				a := o1e.Do(func() error { body(); return idErr(t*10 + 1) })
				vals = []int{unerr(a)}
			case arity == 2 && errTyped:
				a, b := o2e.Do(func() (int, error) { body(); return t*10 + 1, idErr(t*10 + 2) })
				vals = []int{a, unerr(b)}
			case errTyped:
				a, b, c := o3e.Do(func() (int, int, error) { body(); return t*10 + 1, t*10 + 2, idErr(t*10 + 3) })
				vals = []int{a, b, unerr(c)}
			case arity == 1:
				a := o1.Do(func() int { body(); return t*10 + 1 })
				vals = []int{a}
			case arity == 2:
				a, b := o2.Do(func() (int, int) { body(); return t*10 + 1, t*10 + 2 })
				vals = []int{a, b}
			default:
				a, b, c := o3.Do(func() (int, int, int) { body(); return t*10 + 1, t*10 + 2, t*10 + 3 })
				vals = []int{a, b, c}
			}
			log(M{"ev": "ret", "t": t, "vals": vals, "effect": effect, "zero": zeroRes})
		}
		t := 0
		start := func(n int) {
			for i := 0; i < n; i++ {
				t++
				wg.Add(1)
				go onceCaller(t)
			}
		}
		running := false
		waitRunning := func() {
			if running {
				return
			}
			if _, ok := patientRecv(inF, 3*time.Second); ok {
				running = true
			} else {
				log(M{"ev": "info", "what": "no function started within 3s"})
			}
		}
		if before > 0 {
			start(before)
			waitRunning()
		}
		if during > 0 {
			start(during)
			waitRunning()
		}
		// everybody except the runner must be waiting: read it from the goroutine states (bounded wait, never a verdict by itself)
		want := before + during - 1
		deadline := time.Now().Add(2 * time.Second)
		parked := 0
		for want > 0 && time.Now().Before(deadline) {
			if parked = countParkedInOnce(); parked >= want {
				break
			}
			time.Sleep(time.Millisecond)
		}
		log(M{"ev": "info", "what": "parked", "n": parked, "want": want})
		if boolean(sc, "other") && before+during > 0 {
			// while the action is still held at its gate and the other callers wait: OTHER Once values run to completion
			// (whatever the waiting callers share with them must not release them); then give a released waiter time to show up
			var p1 sync2.Once1[int]
			var p2 sync2.Once2[int, int]
			var p3 sync2.Once3[int, int, int]
			for i := 0; i < 3; i++ {
				p1.Do(func() int { return 1 })
				p2.Do(func() (int, int) { return 1, 2 })
				p3.Do(func() (int, int, int) { return 1, 2, 3 })
				p1, p2, p3 = sync2.Once1[int]{}, sync2.Once2[int, int]{}, sync2.Once3[int, int, int]{}
			}
			time.Sleep(20 * time.Millisecond)
		}
		close(gate)
		if !waitPatient(&wg, 30*time.Second) {
			// the action has been released and nothing else holds the callers: a Do that does not come back is not explained by any
			// action of the validator ("every Do call returns"); the stuck goroutines cannot be removed, so the run ends here
			log(M{"ev": "stall", "what": "callers did not return from Do", "stacks": parkedSummary()})
			return
		}
		if after > 0 {
			start(after)
			if !waitPatient(&wg, 30*time.Second) {
				log(M{"ev": "stall", "what": "late callers did not return from Do", "stacks": parkedSummary()})
				return
			}
		}
		log(M{"ev": "end"})
	}
}

// idErr is an error value carrying an int, so that results of error type can be written into the trace.
type idErr int

func (e idErr) Error() string { return "e" }

// onceBurst: many rounds of n callers released together on a fresh Once, nothing gated: the races of the very first Do.
// Per round one line: how many functions started, and how many callers got exactly the values of the function that started
// first.  (The per-round bookkeeping uses one mutex inside the functions only, never around Do.)
func onceBurst(sc M, out *Out, n int) {
	arity, rounds := num(sc, "arity"), num(sc, "rounds")
	for r := 0; r < rounds; r++ {
		var o1 sync2.Once1[int]
		var o2 sync2.Once2[int, int]
		var o3 sync2.Once3[int, int, int]
		var mu sync.Mutex
		started := []int{}
		rets := make([][]int, n+1)
		var wg sync.WaitGroup
		start := make(chan struct{})
		for t := 1; t <= n; t++ {
			wg.Add(1)
			go func(t int) {
				defer wg.Done()
				note := func() { mu.Lock(); started = append(started, t); mu.Unlock() }
				<-start
				switch arity {
				case 1:
					rets[t] = []int{o1.Do(func() int { note(); return t*10 + 1 })}
				case 2:
					a, b := o2.Do(func() (int, int) { note(); return t*10 + 1, t*10 + 2 })
					rets[t] = []int{a, b}
				default:
					a, b, c := o3.Do(func() (int, int, int) { note(); return t*10 + 1, t*10 + 2, t*10 + 3 })
					rets[t] = []int{a, b, c}
				}
			}(t)
		}
		close(start)
		if !waitPatient(&wg, 30*time.Second) {
			out.Emit(M{"ev": "reset", "arity": arity})
			out.Emit(M{"ev": "stall", "what": "burst callers did not return from Do", "stacks": parkedSummary()})
			onceAbandoned = true
			return
		}
		agree := 0
		if len(started) > 0 {
			f := started[0]
			for t := 1; t <= n; t++ {
				ok := len(rets[t]) == arity
				for i := 0; ok && i < arity; i++ {
					ok = rets[t][i] == f*10+i+1
				}
				if ok {
					agree++
				}
			}
		}
		out.Emit(M{"ev": "reset", "arity": arity})
		out.Emit(M{"ev": "burst", "n": n, "starts": len(started), "agree": agree})
	}
}

// onceAbandoned: a scenario ended with callers stuck inside Do; the remaining scenarios are not run (the stuck goroutines stay).
var onceAbandoned bool

// waitPatient waits for wg for at most d, counted in one-millisecond wake-ups (see patient.go): false = still waiting.
func waitPatient(wg *sync.WaitGroup, d time.Duration) bool {
	done := make(chan struct{})
	go func() { wg.Wait(); close(done) }()
	_, ok := patientRecv(done, d)
	return ok
}

// parkedSummary: how many goroutines sit in sync.Once / a mutex right now (for the stall line).
func parkedSummary() int { return countParkedInOnce() }
