// Command driver executes plans (ndjson, one call per line) against the real
// go-typ/typ packages built from /repo's working tree and records what the
// code did as an ndjson trace.  It contains no oracle: it only drives and
// records; every judgement is made by TLC on the recorded trace.
package main

import (
	"bufio"
	"encoding/json"
	"fmt"
	"os"
)

// M is one plan or trace line.
type M = map[string]any

type comp func(in []M, out *Out, args []string)

var comps = map[string]comp{}

// Out writes trace events.
type Out struct {
	w    *bufio.Writer
	jf   *os.File // journal: survives a crash of the process (written unbuffered)
	full bool     // journal every event, not only the start of each program
}

// Journal writes one line to the crash journal at once.
func (o *Out) Journal(e M) {
	if o.jf == nil {
		return
	}
	b, _ := json.Marshal(e)
	o.jf.Write(append(b, '\n'))
}

func (o *Out) Emit(e M) {
	b, err := json.Marshal(e)
	if err != nil {
		panic(err)
	}
	o.w.Write(b)
	o.w.WriteByte('\n')
}

func num(m M, k string) int {
	switch v := m[k].(type) {
	case float64:
		return int(v)
	case int:
		return v
	}
	return 0
}

func str(m M, k string) string {
	s, _ := m[k].(string)
	return s
}

func ints(m M, k string) []int {
	a, _ := m[k].([]any)
	out := make([]int, 0, len(a))
	for _, x := range a {
		f, _ := x.(float64)
		out = append(out, int(f))
	}
	return out
}

func boolean(m M, k string) bool {
	b, _ := m[k].(bool)
	return b
}

// protect runs f and returns the recovered panic value as a string ("" if none).
func protect(f func()) (p string) {
	defer func() {
		if r := recover(); r != nil {
			p = fmt.Sprint(r)
			if p == "" {
				p = "panic"
			}
		}
	}()
	f()
	return ""
}

func nz(s []int) []int {
	if s == nil {
		return []int{}
	}
	return s
}

func main() {
	if len(os.Args) < 4 {
		fmt.Fprintln(os.Stderr, "usage: driver <component> <plan.ndjson> <trace.ndjson> [args]")
		os.Exit(64)
	}
	c, ok := comps[os.Args[1]]
	if !ok {
		fmt.Fprintln(os.Stderr, "unknown component", os.Args[1])
		os.Exit(64)
	}
	f, err := os.Open(os.Args[2])
	if err != nil {
		panic(err)
	}
	var plan []M
	sc := bufio.NewScanner(f)
	sc.Buffer(make([]byte, 1<<24), 1<<24)
	for sc.Scan() {
		if len(sc.Bytes()) == 0 {
			continue
		}
		var m M
		if err := json.Unmarshal(sc.Bytes(), &m); err != nil {
			panic(err)
		}
		plan = append(plan, m)
	}
	f.Close()
	of, err := os.Create(os.Args[3])
	if err != nil {
		panic(err)
	}
	out := &Out{w: bufio.NewWriterSize(of, 1<<20)}
	if jf, err := os.Create(os.Args[3] + ".journal"); err == nil {
		out.jf = jf
		defer jf.Close()
	}
	for _, a := range os.Args[4:] {
		if a == "fulljournal" {
			out.full = true
		}
	}
	c(plan, out, os.Args[4:])
	out.w.Flush()
	of.Close()
}
