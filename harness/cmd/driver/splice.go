package main

import (
	"math"

	"gopkg.in/typ.v4/slices"
)

// C12: splicing helpers.  The input slice has `spare` extra capacity holding junk (-5).
func init() { comps["splice"] = driveSplice }

func withSpare(contents []int, spare int) []int {
	b := make([]int, len(contents)+spare)
	copy(b, contents)
	for i := len(contents); i < len(b); i++ {
		b[i] = -5
	}
	return b[:len(contents)]
}

func driveSplice(plan []M, out *Out, _ []string) {
	for _, c := range plan {
		op, i, k, v, spare := str(c, "op"), num(c, "i"), num(c, "k"), num(c, "v"), num(c, "spare")
		s0, vs0, t0 := ints(c, "s"), ints(c, "vs"), ints(c, "t")
		e := M{"op": op, "i": i, "k": k, "v": v, "spare": spare, "s": s0, "vs": vs0, "t": t0}
		if ty := str(c, "ty"); ty != "" {
			spliceTyped(c, ty, e)
			out.Emit(e)
			continue
		}
		s := withSpare(s0, spare)
		vs := withSpare(vs0, 1)
		t := withSpare(t0, spare)
		if boolean(c, "adj") { // the two inputs are neighbouring views of one backing array (s's capacity runs over t)
			base := withSpare(append(append([]int{}, s0...), t0...), spare)
			s, t = base[:len(s0)], base[len(s0):len(s0)+len(t0)]
		}
		res := []int{}
		fresh1, fresh2 := []int{}, []int{}
		e["panic"] = protect(func() {
			switch op {
			case "Insert":
				slices.Insert(&s, i, v)
				res = s
			case "InsertSlice":
				slices.InsertSlice(&s, i, vs)
				res = s
			case "Remove":
				slices.Remove(&s, i)
				res = s
			case "RemoveSlice":
				slices.RemoveSlice(&s, i, k)
				res = s
			case "Fill":
				slices.Fill(s, v)
				res = s
			case "Repeat":
				res = slices.Repeat(v, k)
			case "Reverse":
				slices.Reverse(s)
				res = s
			case "Grow":
				res = slices.Grow(s, k)
			case "Concat", "Clone":
				var r []int
				if op == "Concat" {
					r = slices.Concat(s, t)
				} else {
					r = slices.Clone(s)
				}
				res = append([]int{}, r...)
				// probe 1: scribble over the result (and one past its length if it has capacity)
				for j := range r {
					r[j] = 99
				}
				if cap(r) > len(r) {
					_ = append(r, 98)
				}
				fresh1 = append(append([]int{}, s...), t...)
				// probe 2: restore the result, scribble over the inputs' whole backing arrays
				copy(r, res)
				for j := range s[:cap(s)] {
					s[:cap(s)][j] = 97
				}
				for j := range t[:cap(t)] {
					t[:cap(t)][j] = 97
				}
				fresh2 = append([]int{}, r...)
			}
		})
		e["res"] = nz(append([]int{}, res...))
		e["vsafter"] = nz(append([]int{}, vs...))
		e["fresh1"], e["fresh2"] = fresh1, fresh2
		out.Emit(e)
	}
}

// The helpers on element types other than int: "float" (code -1000 is negative zero), "slice" ([]int{v}, nil for 0: not comparable),
// "struct" (a struct holding a slice: not comparable), "string" ("" for 0).  Results are decoded back to the codes.
func spliceTyped(c M, ty string, e M) {
	switch ty {
	case "float":
		spliceT(c, e, func(v int) float64 {
			if v == -1000 {
				return math.Copysign(0, -1)
			}
			return float64(v)
		}, func(f float64) int {
			if f == 0 && math.Signbit(f) {
				return -1000
			}
			return int(f)
		})
	case "slice":
		spliceT(c, e, func(v int) []int {
			if v == 0 {
				return nil
			}
			return []int{v}
		}, func(x []int) int {
			if x == nil {
				return 0
			}
			return x[0]
		})
	case "s24": // 24 bytes (three ints): not a power of two
		spliceT(c, e, func(v int) [3]int { return [3]int{v, v, v} }, func(x [3]int) int {
			if x[0] != x[1] || x[1] != x[2] {
				return -999
			}
			return x[0]
		})
	case "b3": // three bytes
		spliceT(c, e, func(v int) [3]byte { return [3]byte{byte(v), byte(v), byte(v)} }, func(x [3]byte) int {
			if x[0] != x[1] || x[1] != x[2] {
				return -999
			}
			return int(x[0])
		})
	case "b1200": // 1200 bytes
		spliceT(c, e, func(v int) [150]int64 {
			var a [150]int64
			a[0], a[149] = int64(v), int64(v)
			return a
		}, func(x [150]int64) int {
			if x[0] != x[149] {
				return -999
			}
			return int(x[0])
		})
	case "struct":
		type box struct {
			a []int
			b int
		}
		spliceT(c, e, func(v int) box {
			if v == 0 {
				return box{}
			}
			return box{[]int{v}, v}
		}, func(x box) int { return x.b })
	default:
		spliceT(c, e, func(v int) string {
			if v == 0 {
				return ""
			}
			return string(rune('a'+v%26)) + string(rune('0'+v%10))
		}, func(x string) int {
			if x == "" {
				return 0
			}
			for v := 1; v < 300; v++ {
				if string(rune('a'+v%26))+string(rune('0'+v%10)) == x {
					return v
				}
			}
			return -1
		})
	}
}

func spliceT[T any](c M, e M, to func(int) T, from func(T) int) {
	op, i, k, v, spare := str(c, "op"), num(c, "i"), num(c, "k"), num(c, "v"), num(c, "spare")
	conv := func(xs []int, spare int) []T {
		b := make([]T, len(xs)+spare)
		for j, x := range xs {
			b[j] = to(x)
		}
		for j := len(xs); j < len(b); j++ {
			b[j] = to(-5)
		}
		return b[:len(xs)]
	}
	back := func(xs []T) []int {
		o := []int{}
		for _, x := range xs {
			o = append(o, from(x))
		}
		return o
	}
	s, vs, t := conv(ints(c, "s"), spare), conv(ints(c, "vs"), 1), conv(ints(c, "t"), spare)
	var res []T
	fresh1, fresh2 := []int{}, []int{}
	e["panic"] = protect(func() {
		switch op {
		case "Insert":
			slices.Insert(&s, i, to(v))
			res = s
		case "InsertSlice":
			slices.InsertSlice(&s, i, vs)
			res = s
		case "Remove":
			slices.Remove(&s, i)
			res = s
		case "RemoveSlice":
			slices.RemoveSlice(&s, i, k)
			res = s
		case "Fill":
			slices.Fill(s, to(v))
			res = s
		case "Repeat":
			res = slices.Repeat(to(v), k)
		case "Reverse":
			slices.Reverse(s)
			res = s
		case "Grow":
			res = slices.Grow(s, k)
		case "Concat", "Clone":
			var r []T
			if op == "Concat" {
				r = slices.Concat(s, t)
			} else {
				r = slices.Clone(s)
			}
			res = append([]T{}, r...)
			for j := range r {
				r[j] = to(99)
			}
			fresh1 = append(back(s), back(t)...)
			copy(r, res)
			for j := range s[:cap(s)] {
				s[:cap(s)][j] = to(97)
			}
			for j := range t[:cap(t)] {
				t[:cap(t)][j] = to(97)
			}
			fresh2 = back(r)
		}
	})
	e["res"] = back(res)
	e["vsafter"] = back(vs)
	e["fresh1"], e["fresh2"] = fresh1, fresh2
	e["ty"] = str(c, "ty")
}
