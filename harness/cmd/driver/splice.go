package main

import "gopkg.in/typ.v4/slices"

// C12: splicing helpers.  The input slice has `spare` extra capacity holding junk (-5).
func init() { comps["splice"] = driveSplice }

func withSpare(contents []int, spare int) []int {
	b := make([]int, len(contents)+spare)
	copy(b, contents)
	for i := len(contents); i < len(b); i++ {
		b[i] = -5
	}
	return b[:len(contents)]
}

func driveSplice(plan []M, out *Out, _ []string) {
	for _, c := range plan {
		op, i, k, v, spare := str(c, "op"), num(c, "i"), num(c, "k"), num(c, "v"), num(c, "spare")
		s0, vs0, t0 := ints(c, "s"), ints(c, "vs"), ints(c, "t")
		e := M{"op": op, "i": i, "k": k, "v": v, "spare": spare, "s": s0, "vs": vs0, "t": t0}
		s := withSpare(s0, spare)
		vs := withSpare(vs0, 1)
		t := withSpare(t0, spare)
		res := []int{}
		fresh1, fresh2 := []int{}, []int{}
		e["panic"] = protect(func() {
			switch op {
			case "Insert":
				slices.Insert(&s, i, v)
				res = s
			case "InsertSlice":
				slices.InsertSlice(&s, i, vs)
				res = s
			case "Remove":
				slices.Remove(&s, i)
				res = s
			case "RemoveSlice":
				slices.RemoveSlice(&s, i, k)
				res = s
			case "Fill":
				slices.Fill(s, v)
				res = s
			case "Repeat":
				res = slices.Repeat(v, k)
			case "Reverse":
				slices.Reverse(s)
				res = s
			case "Grow":
				res = slices.Grow(s, k)
			case "Concat", "Clone":
				var r []int
				if op == "Concat" {
					r = slices.Concat(s, t)
				} else {
					r = slices.Clone(s)
				}
				res = append([]int{}, r...)
				// probe 1: scribble over the result (and one past its length if it has capacity)
				for j := range r {
					r[j] = 99
				}
				if cap(r) > len(r) {
					_ = append(r, 98)
				}
				fresh1 = append(append([]int{}, s...), t...)
				// probe 2: restore the result, scribble over the inputs' whole backing arrays
				copy(r, res)
				for j := range s[:cap(s)] {
					s[:cap(s)][j] = 97
				}
				for j := range t[:cap(t)] {
					t[:cap(t)][j] = 97
				}
				fresh2 = append([]int{}, r...)
			}
		})
		e["res"] = nz(append([]int{}, res...))
		e["vsafter"] = nz(append([]int{}, vs...))
		e["fresh1"], e["fresh2"] = fresh1, fresh2
		out.Emit(e)
	}
}
