package main

import (
	"math"

	"gopkg.in/typ.v4/slices"
)

// C13: Chunk / Windowed / Pairs and their Func variants.
func init() { comps["partition"] = drivePartition }

func cp2(xs [][]int) [][]int {
	out := [][]int{}
	for _, x := range xs {
		out = append(out, append([]int{}, x...))
	}
	return out
}

func drivePartition(plan []M, out *Out, _ []string) {
	for _, c := range plan {
		op, n, size := str(c, "op"), num(c, "n"), num(c, "size")
		// sizes near the top of the int range (plan: "huge": 0 = MaxInt, 1 = MaxInt-1, 2 = MaxInt/2+1).  TLC integers are 32-bit, so
		// the trace writes such a size as 2^30: for the inputs used (n <= 300) every clause is the same function of any size > n
		real := size
		if h, ok := c["huge"]; ok {
			real = []int{math.MaxInt, math.MaxInt - 1, math.MaxInt/2 + 1}[int(h.(float64))%3]
			size = 1 << 30
		}
		input := ints(c, "input")
		if _, ok := c["input"]; !ok {
			input = make([]int, n)
			for i := range input {
				input[i] = i + 1
			}
		}
		work := append([]int{}, input...)
		e := M{"op": op, "n": n, "size": size, "input": input}
		var res, cb [][]int
		e["panic"] = protect(func() {
			switch op {
			case "Chunk":
				res = cp2(slices.Chunk(work, real))
				slices.ChunkFunc(work, real, func(p []int) { cb = append(cb, append([]int{}, p...)) })
			case "Windowed":
				res = cp2(slices.Windowed(work, real))
				slices.WindowedFunc(work, real, func(p []int) { cb = append(cb, append([]int{}, p...)) })
			case "Pairs":
				for _, p := range slices.Pairs(work) {
					res = append(res, []int{p[0], p[1]})
				}
				slices.PairsFunc(work, func(a, b int) { cb = append(cb, []int{a, b}) })
			}
		})
		if res == nil {
			res = [][]int{}
		}
		if cb == nil {
			cb = [][]int{}
		}
		e["res"], e["cb"], e["after"] = res, cb, work
		out.Emit(e)
	}
}
