package main

import (
	"errors"
	"math"

	tmaps "gopkg.in/typ.v4/maps"
	"gopkg.in/typ.v4/slices"
	"gopkg.in/typ.v4/sync2"
)

// C14: functional slice and map helpers.  Callback families are named in the
// plan ("eq"/"ne"/"gt" predicates on a constant, "mod2"/"id"/"const" keyers,
// "rec"/"dec" accumulators, "x10"/"neg" converters).
func init() { comps["functional"] = driveFunctional }

func predOf(fam string, c int) func(int) bool {
	switch fam {
	// stateful callbacks (also inputs, by "for every input"): the answer depends on how many times the callback has been asked
	case "oddcall":
		n := 0
		return func(int) bool { n++; return n%2 == 1 }
	case "first2":
		n := 0
		return func(int) bool { n++; return n <= 2 }
	case "eq":
		return func(v int) bool { return v == c }
	case "ne":
		return func(v int) bool { return v != c }
	case "gt":
		return func(v int) bool { return v > c }
	}
	return func(int) bool { return false }
}

func equivOf(fam string) func(a, b int) bool {
	if fam == "mod2" {
		return func(a, b int) bool { return a%2 == b%2 }
	}
	if fam == "leq" { // not symmetric: the FIRST argument is the slice element / the value already kept, the second the value asked about
		return func(a, b int) bool { return a <= b }
	}
	if fam == "near" { // reflexive and symmetric but NOT transitive: "differs by at most one"
		return func(a, b int) bool { return a-b <= 1 && b-a <= 1 }
	}
	return func(a, b int) bool { return a == b }
}

func keyOf(fam string) func(int) int {
	switch fam {
	case "callpar": // stateful: the key is the parity of the call number
		n := 0
		return func(int) int { n++; return n % 2 }
	case "mod2":
		return func(v int) int { return v % 2 }
	case "id":
		return func(v int) int { return v }
	}
	return func(int) int { return 0 }
}

func flatMap(m map[int]int) []int {
	out := []int{}
	for k, v := range m {
		out = append(out, k, v)
	}
	return out
}

func driveFunctional(plan []M, out *Out, _ []string) {
	errBoom := errors.New("boom")
	for _, c := range plan {
		op, fam, a, b := str(c, "op"), str(c, "fam"), num(c, "a"), num(c, "b")
		s0, aux0 := ints(c, "s"), ints(c, "aux")
		// working copies with spare capacity, so that an append-in-place would be visible
		s := append(make([]int, 0, len(s0)+3), s0...)
		aux := append(make([]int, 0, len(aux0)+3), aux0...)
		if boolean(c, "nils") { // nil (not merely empty) inputs
			if len(s0) == 0 {
				s = nil
			}
			if len(aux0) == 0 {
				aux = nil
			}
		}
		if ty := str(c, "ty"); ty == "byte" || ty == "string" {
			driveFunctionalTyped(c, ty, out)
			continue
		} else if ty == "float" {
			driveFunctionalFloatMap(c, out)
			continue
		}
		e := M{"op": op, "fam": fam, "a": a, "b": b, "s": s0, "aux": aux0}
		rs, ri, rb := []int{}, 0, false
		rg := []any{}
		var m map[int]int
		isMap := len(op) > 1 && op[0] == 'M' && op != "Map" && op != "MapErr"
		if isMap && !(boolean(c, "nils") && len(aux0) == 0) { // nils: a nil map
			m = map[int]int{}
			for i := 0; i+1 < len(aux0); i += 2 {
				m[aux0[i]] = aux0[i+1]
			}
		}
		var resSlice []int // the returned slice itself (for the freshness probes)
		var resMap map[int]int
		e["panic"] = protect(func() {
			switch op {
			case "Fold", "FoldReverse":
				if fam == "rec" {
					acc := func(st []int, v int) []int { return append(append([]int{}, st...), v) }
					if op == "Fold" {
						rs = slices.Fold(s, append([]int{}, aux...), acc)
					} else {
						rs = slices.FoldReverse(s, append([]int{}, aux...), acc)
					}
				} else {
					acc := func(st int, v int) int { return 10*st + v }
					if op == "Fold" {
						rs = []int{slices.Fold(s, aux[0], acc)}
					} else {
						rs = []int{slices.FoldReverse(s, aux[0], acc)}
					}
				}
			case "Map":
				conv := func(v int) int { return v * 10 }
				if fam == "neg" {
					conv = func(v int) int { return -v }
				} else if fam == "callno" { // stateful: the call number is part of the result
					n := 0
					conv = func(v int) int { n++; return 100*n + v }
				}
				resSlice = slices.Map(s, conv)
			case "MapErr":
				p := predOf(fam, a)
				calls := 0
				r, err := slices.MapErr(s, func(v int) (int, error) {
					calls++
					if p(v) {
						return 0, errBoom
					}
					return v * 10, nil
				})
				ri = calls
				if err != nil {
					rb = err == errBoom
					if r != nil {
						rs = append([]int{-777}, r...) // a result next to an error: made visible
					}
				} else {
					resSlice = r
				}
			case "Filter":
				resSlice = slices.Filter(s, predOf(fam, a))
			case "Any":
				rb = slices.Any(s, predOf(fam, a))
			case "All":
				rb = slices.All(s, predOf(fam, a))
			case "Index":
				ri = slices.Index(s, a)
			case "IndexFunc":
				ri = slices.IndexFunc(s, predOf(fam, a))
			case "Contains":
				rb = slices.Contains(s, a)
			case "ContainsFunc":
				rb = slices.ContainsFunc(s, a, equivOf(fam))
			case "Distinct":
				resSlice = slices.Distinct(s)
			case "DistinctFunc":
				resSlice = slices.DistinctFunc(s, equivOf(fam))
			case "Except":
				resSlice = slices.Except(s, aux)
			case "ExceptSetM":
				resSlice = slices.ExceptSet(s, tmaps.NewSetFromSlice(aux))
			case "ExceptSetS":
				resSlice = slices.ExceptSet(s, sync2.NewSetFromSlice(aux))
			case "GroupBy":
				for _, g := range slices.GroupBy(s, keyOf(fam)) {
					rg = append(rg, []any{g.Key, append([]int{}, g.Values...)})
				}
			case "CountBy":
				for _, g := range slices.CountBy(s, keyOf(fam)) {
					rs = append(rs, g.Key, g.Count)
				}
			case "Trim":
				rs = append(rs, slices.Trim(s, aux)...)
			case "TrimLeft":
				rs = append(rs, slices.TrimLeft(s, aux)...)
			case "TrimRight":
				rs = append(rs, slices.TrimRight(s, aux)...)
			case "TrimFunc":
				rs = append(rs, slices.TrimFunc(s, predOf(fam, a))...)
			case "TrimLeftFunc":
				rs = append(rs, slices.TrimLeftFunc(s, predOf(fam, a))...)
			case "TrimRightFunc":
				rs = append(rs, slices.TrimRightFunc(s, predOf(fam, a))...)
			case "TryGet":
				ri, rb = slices.TryGet(s, a)
			case "SafeGet":
				ri = slices.SafeGet(s, a)
			case "SafeGetOr":
				ri = slices.SafeGetOr(s, a, b)
			case "Last":
				ri = slices.Last(s)
			case "MClone":
				resMap = tmaps.Clone(m)
				rs = flatMap(resMap)
			case "MClear":
				tmaps.Clear(m)
			case "MKeys":
				resSlice = tmaps.Keys(m)
			case "MValues":
				resSlice = tmaps.Values(m)
			case "MKeyOf":
				ri, rb = tmaps.KeyOf(m, a)
			case "MContainsValue":
				rb = tmaps.ContainsValue(m, a)
			case "MHasKey":
				rb = tmaps.HasKey(m, a)
			}
		})
		if resSlice != nil {
			rs = append([]int{}, resSlice...)
		}
		e["rs"], e["ri"], e["rb"], e["rg"] = rs, ri, rb, rg
		snap := func() []int {
			if isMap {
				return flatMap(m)
			}
			return append([]int{}, s...)
		}
		e["after"] = snap()
		e["auxafter"] = append([]int{}, aux...)
		// freshness probes: mutate the result, look at the input; mutate the input, look at the result
		for i := range resSlice {
			resSlice[i] = 99
		}
		if cap(resSlice) > len(resSlice) {
			_ = append(resSlice, 98)
		}
		if op == "MClone" {
			// the returned map "can be modified": overwrite, insert and delete (a panic here is recorded like any other)
			if p2 := protect(func() {
				for k := range resMap {
					resMap[k] = 99
				}
				resMap[424242] = 1
				delete(resMap, 424242)
			}); p2 != "" && e["panic"] == "" {
				e["panic"] = "writing to the returned map: " + p2
			}
		}
		e["after2"] = snap()
		if resSlice != nil || resMap != nil {
			// restore the result, then disturb the input
			copy(resSlice, rs)
			if resMap != nil {
				for i := 0; i+1 < len(rs); i += 2 {
					resMap[rs[i]] = rs[i+1]
				}
			}
			for i := range s {
				s[i] = 97
			}
			for k := range m {
				m[k] = 97
			}
			if resMap != nil {
				// same pairs expected; compare as a set in the validator, so re-flatten in the recorded order
				r2 := []int{}
				for i := 0; i+1 < len(rs); i += 2 {
					r2 = append(r2, rs[i], resMap[rs[i]])
				}
				e["rs2"] = r2
			} else {
				e["rs2"] = append([]int{}, resSlice...)
			}
		} else {
			e["rs2"] = rs
		}
		out.Emit(e)
	}
}

// The comparable helpers once more on other element types: the ids of the plan are mapped to bytes around 0x80 and above
// (0x7e+id, so id 2 is 0x80; id 0 is 0x7e) or to strings ("", "a", "b", ...), the results mapped back to ids.
func driveFunctionalTyped(c M, ty string, out *Out) {
	op := str(c, "op")
	s0, aux0, a := ints(c, "s"), ints(c, "aux"), num(c, "a")
	e := M{"op": op, "fam": str(c, "fam"), "a": a, "b": num(c, "b"), "s": s0, "aux": aux0, "ty": ty}
	rs, ri, rb := []int{}, 0, false
	if ty == "byte" {
		to := func(i int) byte { return byte(0x7e + i) }
		from := func(b byte) int { return int(b) - 0x7e }
		rs, ri, rb, e["panic"] = typedOps(op, s0, aux0, a, to, from)
	} else {
		to := func(i int) string {
			if i == 0 {
				return ""
			}
			return string(rune('a' + i - 1))
		}
		from := func(x string) int {
			if x == "" {
				return 0
			}
			return int(x[0]-'a') + 1
		}
		rs, ri, rb, e["panic"] = typedOps(op, s0, aux0, a, to, from)
	}
	e["rs"], e["ri"], e["rb"], e["rg"] = rs, ri, rb, []any{}
	e["after"], e["auxafter"], e["after2"], e["rs2"] = s0, aux0, s0, rs
	out.Emit(e)
}

func typedOps[T comparable](op string, s0, aux0 []int, a int, to func(int) T, from func(T) int) (rs []int, ri int, rb bool, pan string) {
	rs = []int{}
	conv := func(xs []int) []T {
		out := make([]T, len(xs), len(xs)+2)
		for i, x := range xs {
			out[i] = to(x)
		}
		return out
	}
	back := func(xs []T) []int {
		out := []int{}
		for _, x := range xs {
			out = append(out, from(x))
		}
		return out
	}
	s, aux := conv(s0), conv(aux0)
	pan = protect(func() {
		switch op {
		case "Trim":
			rs = back(slices.Trim(s, aux))
		case "TrimLeft":
			rs = back(slices.TrimLeft(s, aux))
		case "TrimRight":
			rs = back(slices.TrimRight(s, aux))
		case "Index":
			ri = slices.Index(s, to(a))
		case "Contains":
			rb = slices.Contains(s, to(a))
		case "Distinct":
			rs = back(slices.Distinct(s))
		case "Except":
			rs = back(slices.Except(s, aux))
		}
	})
	return
}

// The map helpers on map[float64]int: key id 0 is NaN (every NaN key is an entry of its own and can be neither looked up nor
// deleted by key), key id k is k + 0.5.  Pairs are written as in the int case, NaN entries as key 0.
func driveFunctionalFloatMap(c M, out *Out) {
	op, aux0, a := str(c, "op"), ints(c, "aux"), num(c, "a")
	toK := func(id int) float64 {
		if id == 0 {
			return math.NaN()
		}
		return float64(id) + 0.5
	}
	fromK := func(f float64) int {
		if f != f {
			return 0
		}
		return int(f)
	}
	m := map[float64]int{}
	for i := 0; i+1 < len(aux0); i += 2 {
		m[toK(aux0[i])] = aux0[i+1]
	}
	flat := func(m map[float64]int) []int {
		o := []int{}
		for k, v := range m {
			o = append(o, fromK(k), v)
		}
		return o
	}
	e := M{"op": op, "fam": "", "a": a, "b": 0, "s": []int{}, "aux": aux0, "ty": "float"}
	rs, ri, rb := []int{}, 0, false
	var resMap map[float64]int
	e["panic"] = protect(func() {
		switch op {
		case "MClone":
			resMap = tmaps.Clone(m)
			rs = flat(resMap)
		case "MClear":
			tmaps.Clear(m)
		case "MKeys":
			for _, k := range tmaps.Keys(m) {
				rs = append(rs, fromK(k))
			}
		case "MValues":
			rs = append(rs, tmaps.Values(m)...)
		case "MKeyOf":
			k, ok := tmaps.KeyOf(m, a)
			ri, rb = fromK(k), ok
			if !ok {
				ri = 0
			}
		case "MContainsValue":
			rb = tmaps.ContainsValue(m, a)
		case "MHasKey":
			rb = tmaps.HasKey(m, toK(a))
		}
	})
	e["rs"], e["ri"], e["rb"], e["rg"] = rs, ri, rb, []any{}
	e["after"], e["auxafter"] = flat(m), aux0
	if resMap != nil {
		resMap[424242] = 1
		delete(resMap, 424242)
	}
	e["after2"] = flat(m)
	for k := range m {
		if k == k {
			m[k] = 97
		}
	}
	if resMap != nil {
		e["rs2"] = flat(resMap)
	} else {
		e["rs2"] = rs
	}
	out.Emit(e)
}
