package main

import (
	"sync"
	"sync/atomic"
	"time"

	"gopkg.in/typ.v4/sync2"
)

// C09, free-running timelines: the goroutines really block inside the keyed mutexes (the controlled scheduler never lets a
// goroutine enter a Lock that would wait, so it cannot see effects that need a goroutine *queued* on a lock).
//
// scenario = {"kind":"m"|"rw", "steps":[{"t":thread, "op":..., "k":key} | {"t":thread, "r":number}], "threads":n}
//
//	explicit step: perform op on key k with thread t (skipped if t is still inside an earlier call)
//	random step  : r picks, among what t may do now (lock order = key order for blocking acquisitions, Try on any key it does not
//	               hold, release of what it holds, ClearKey of a key nobody holds or awaits), one operation
//
// The coordinator starts one call at a time and waits for its return, at most 20 ms if its own view says the call has to wait
// (key held incompatibly, or another call pending on that key), else up to 2 s; "pending" is logged when the latter runs out.
// After a release that frees a key with waiters it waits for one of them to return ("quiet" when none does within 2 s).
// At the end everything is released in rounds; a call that still has not returned gets a "pending" line.
// What "pending" and "quiet" may legitimately follow is decided by the validator from its own state, not by the coordinator.
func init() { comps["keyedfree"] = driveKeyedFree }

type kfThread struct {
	id    int
	cmds  chan func()
	busy  atomic.Bool
	held  map[int]string // key -> "w" | "r"
	opK   int            // key of the call in progress
	opOp  string
	tryOK map[int]bool
}

func driveKeyedFree(plan []M, out *Out, _ []string) {
	const longWait, shortWait = 2 * time.Second, 20 * time.Millisecond
	for si, sc := range plan {
		var mu sync.Mutex
		emit := func(e M) { mu.Lock(); out.Emit(e); out.w.Flush(); mu.Unlock() } // flushed: the trace must survive a crash of the process
		emit(M{"ev": "reset", "plan": si})
		rw := str(sc, "kind") == "rw"
		var km sync2.KeyedMutex[int]
		var kr sync2.KeyedRWMutex[int]
		// "warm": that many other keys have been locked and unlocked before (a keyed mutex that has seen thousands of keys)
		for pass := 0; pass < 3; pass++ { // (several passes: the keys end up in the read-only part of the map behind the mutex table)
			for i, w := 0, num(sc, "warm"); i < w; i++ {
				if rw {
					if i%2 == 0 {
						kr.LockKey(1000 + i)
						kr.UnlockKey(1000 + i)
					} else {
						kr.RLockKey(1000 + i)
						kr.RUnlockKey(1000 + i)
					}
				} else {
					km.LockKey(1000 + i)
					km.UnlockKey(1000 + i)
				}
			}
		}
		if boolean(sc, "warmclear") { // ... and one of those other, idle keys is cleared (must not disturb anybody else's key)
			km.ClearKey(1000)
			kr.ClearKey(1000)
		}
		nt := num(sc, "threads")
		if nt == 0 {
			nt = 4
		}
		const nk = 3
		var occW, occR [nk + 1]int32
		ths := map[int]*kfThread{}
		retc := make(chan int, 64)
		for t := 1; t <= nt; t++ {
			th := &kfThread{id: t, cmds: make(chan func(), 1), held: map[int]string{}, tryOK: map[int]bool{}}
			ths[t] = th
			go func() {
				for f := range th.cmds {
					f()
					th.busy.Store(false)
					retc <- th.id
				}
			}()
		}
		// the operation on the real object; returns the ret fields.  k-1 is the Go key (the zero key included).
		perform := func(th *kfThread, op string, k int) M {
			r := M{"rv": 0, "rok": true}
			g := k - 1
			switch op {
			case "ClearKey":
				km.ClearKey(g)
			case "WClearKey":
				kr.ClearKey(g)
			case "Lock":
				km.LockKey(g)
				r["rv"] = int(atomic.AddInt32(&occW[k], 1))
			case "TryLock":
				ok := km.TryLockKey(g)
				if ok {
					atomic.AddInt32(&occW[k], 1)
				}
				r["rok"], r["rv"] = ok, int(atomic.LoadInt32(&occW[k]))
			case "Unlock":
				atomic.AddInt32(&occW[k], -1)
				km.UnlockKey(g)
			case "WLock":
				kr.LockKey(g)
				r["rv"] = int(atomic.AddInt32(&occW[k], 1)) + 100*int(atomic.LoadInt32(&occR[k]))
			case "TryWLock":
				ok := kr.TryLockKey(g)
				if ok {
					atomic.AddInt32(&occW[k], 1)
				}
				r["rok"], r["rv"] = ok, int(atomic.LoadInt32(&occW[k]))+100*int(atomic.LoadInt32(&occR[k]))
			case "WUnlock":
				atomic.AddInt32(&occW[k], -1)
				kr.UnlockKey(g)
			case "RLock":
				kr.RLockKey(g)
				atomic.AddInt32(&occR[k], 1)
				r["rv"] = int(atomic.LoadInt32(&occW[k]))
			case "TryRLock":
				ok := kr.TryRLockKey(g)
				if ok {
					atomic.AddInt32(&occR[k], 1)
				}
				r["rok"], r["rv"] = ok, int(atomic.LoadInt32(&occW[k]))
			case "RUnlock":
				atomic.AddInt32(&occR[k], -1)
				kr.RUnlockKey(g)
			}
			return r
		}
		// coordinator's view (only used to decide how long to wait and what may be offered)
		pendOn := func(k int, except int) bool {
			for _, u := range ths {
				if u.id != except && u.opOp != "" && u.opK == k {
					return true
				}
			}
			return false
		}
		countOn := func(k int) int {
			n := 0
			for _, u := range ths {
				if u.opOp != "" && u.opK == k {
					n++
				}
			}
			return n
		}
		heldBy := func(k int, mode string, except int) bool { // somebody else holds k in a mode incompatible with mode
			for _, u := range ths {
				if u.id == except {
					continue
				}
				if h, ok := u.held[k]; ok && (h == "w" || mode == "w") {
					return true
				}
			}
			return false
		}
		anyHolder := func(k int) bool {
			for _, u := range ths {
				if _, ok := u.held[k]; ok {
					return true
				}
			}
			return false
		}
		// absorb returns that have arrived; updates held sets
		var results sync.Map // thread id -> M of the last return
		absorb := func(t int) {
			th := ths[t]
			rv, _ := results.Load(t)
			r := rv.(M)
			switch th.opOp {
			case "Lock", "WLock":
				th.held[th.opK] = "w"
			case "RLock":
				th.held[th.opK] = "r"
			case "TryLock", "TryWLock":
				if r["rok"].(bool) {
					th.held[th.opK] = "w"
				}
			case "TryRLock":
				if r["rok"].(bool) {
					th.held[th.opK] = "r"
				}
			}
			th.opK, th.opOp = 0, ""
		}
		waitRet := func(want int, d time.Duration) bool { // wait until thread want (0 = anybody) has returned
			pt := newPatience(d)
			for {
				if want != 0 && !ths[want].busy.Load() && ths[want].opOp == "" {
					return true
				}
				select {
				case t := <-retc:
					absorb(t)
					if want == 0 || t == want {
						return true
					}
				case <-pt.Tick():
					if pt.Out() {
						return false
					}
				}
			}
		}
		drain := func() {
			for {
				select {
				case t := <-retc:
					absorb(t)
				default:
					return
				}
			}
		}
		start := func(th *kfThread, op string, k int) {
			th.opK, th.opOp = k, op
			th.busy.Store(true)
			if op == "Unlock" || op == "WUnlock" || op == "RUnlock" {
				delete(th.held, k)
			}
			emit(M{"ev": "inv", "t": th.id, "op": op, "k": k})
			th.cmds <- func() {
				r := perform(th, op, k)
				results.Store(th.id, r)
				emit(M{"ev": "ret", "t": th.id, "rok": r["rok"], "rv": r["rv"]})
			}
		}
		abandoned := false
		do := func(th *kfThread, op string, k int) {
			blocking := op == "Lock" || op == "WLock" || op == "RLock"
			mode := "w"
			if op == "RLock" || op == "TryRLock" {
				mode = "r"
			}
			mayWait := blocking && (heldBy(k, mode, th.id) || pendOn(k, th.id))
			release := op == "Unlock" || op == "WUnlock" || op == "RUnlock"
			start(th, op, k)
			if mayWait {
				waitRet(th.id, shortWait)
				return
			}
			if !waitRet(th.id, longWait) {
				emit(M{"ev": "pending", "t": th.id})
				abandoned = true
				return
			}
			if release && !anyHolder(k) && pendOn(k, 0) {
				// the key is free and somebody waits for it: one of the waiters has to get it
				n0 := countOn(k)
				dl := time.Now().Add(longWait)
				for countOn(k) == n0 && time.Now().Before(dl) {
					waitRet(0, time.Until(dl))
				}
				if countOn(k) == n0 {
					emit(M{"ev": "quiet", "k": k})
					abandoned = true
				}
			}
		}
		options := func(th *kfThread) [][2]any {
			var o [][2]any
			maxHeld := 0
			for k := range th.held {
				if k > maxHeld {
					maxHeld = k
				}
			}
			for k := 1; k <= nk; k++ {
				if h, ok := th.held[k]; ok {
					switch {
					case !rw:
						o = append(o, [2]any{"Unlock", k})
					case h == "w":
						o = append(o, [2]any{"WUnlock", k})
					default:
						o = append(o, [2]any{"RUnlock", k})
					}
					continue
				}
				if !rw {
					o = append(o, [2]any{"TryLock", k})
					if k > maxHeld {
						o = append(o, [2]any{"Lock", k}, [2]any{"Lock", k})
					}
				} else {
					o = append(o, [2]any{"TryWLock", k}, [2]any{"TryRLock", k})
					if k > maxHeld {
						o = append(o, [2]any{"WLock", k}, [2]any{"RLock", k}, [2]any{"WLock", k})
					}
				}
				if !anyHolder(k) && !pendOn(k, 0) {
					if rw {
						o = append(o, [2]any{"WClearKey", k})
					} else {
						o = append(o, [2]any{"ClearKey", k})
					}
				}
			}
			return o
		}
		steps, _ := sc["steps"].([]any)
		for _, x := range steps {
			if abandoned {
				break
			}
			st := x.(M)
			drain()
			th := ths[num(st, "t")]
			if th == nil || th.busy.Load() || th.opOp != "" {
				continue
			}
			if op := str(st, "op"); op != "" {
				do(th, op, num(st, "k"))
				continue
			}
			o := options(th)
			if len(o) == 0 {
				continue
			}
			c := o[num(st, "r")%len(o)]
			do(th, c[0].(string), c[1].(int))
		}
		// release everything in rounds
		for round := 0; round < 40 && !abandoned; round++ {
			drain()
			acted := false
			for t := 1; t <= nt && !abandoned; t++ {
				th := ths[t]
				if th.busy.Load() || th.opOp != "" {
					continue
				}
				for k, h := range th.held {
					op := "Unlock"
					if rw {
						op = map[string]string{"w": "WUnlock", "r": "RUnlock"}[h]
					}
					do(th, op, k)
					acted = true
					break
				}
			}
			if !acted {
				busy := 0
				for _, th := range ths {
					if th.busy.Load() || th.opOp != "" {
						busy++
					}
				}
				if busy == 0 {
					break
				}
				if !waitRet(0, longWait) {
					for t := 1; t <= nt; t++ {
						if ths[t].busy.Load() {
							emit(M{"ev": "pending", "t": t})
						}
					}
					abandoned = true
				}
			}
		}
		if !abandoned {
			emit(M{"ev": "end"})
			for _, th := range ths {
				close(th.cmds)
			}
		}
	}
}
