package main

import "gopkg.in/typ.v4/maps"

// C11: maps.Bimap, two values "a" and "b" (b becomes a clone of a or vice versa).
// The trace speaks in ids: keys 1..nk, values 11..10+nv.  The Go keys and values behind them are chosen so that the
// FIRST key and the FIRST value are the zero values of their types (key id k = Go key k-1, value id v = Go value (v-11)*7):
// "no entry" answers of the API come with ok = false and are written as id 0.
func init() { comps["bimap"] = driveBimap }

func obsBimap(b *maps.Bimap[int, int], nk, nv int) M {
	o := M{}
	fw, fwok, cf := []int{}, []bool{}, []bool{}
	for k := 1; k <= nk; k++ {
		v, ok := b.GetForward(bmKey(k))
		fw, fwok, cf = append(fw, bmValID(v, ok)), append(fwok, ok), append(cf, b.ContainsForward(bmKey(k)))
	}
	rv, rvok, cr := []int{}, []bool{}, []bool{}
	for v := 11; v <= 10+nv; v++ {
		k, ok := b.GetReverse(bmVal(v))
		rv, rvok, cr = append(rv, bmKeyID(k, ok)), append(rvok, ok), append(cr, b.ContainsReverse(bmVal(v)))
	}
	rng := [][]int{}
	b.Range(func(k, v int) bool { rng = append(rng, []int{bmKeyID(k, true), bmValID(v, true)}); return true })
	stop := 0
	b.Range(func(k, v int) bool { stop++; return false })
	o["fw"], o["fwok"], o["cf"], o["rv"], o["rvok"], o["cr"] = fw, fwok, cf, rv, rvok, cr
	o["len"], o["range"], o["stop1"] = b.Len(), rng, stop
	return o
}

func driveBimap(plan []M, out *Out, _ []string) {
	bm := map[string]*maps.Bimap[int, int]{}
	nk, nv := 3, 3
	other := func(n string) string {
		if n == "a" {
			return "b"
		}
		return "a"
	}
	for _, c := range plan {
		op, n := str(c, "op"), str(c, "n")
		e := M{"op": op, "n": n, "k": num(c, "k"), "v": num(c, "v")}
		e["panic"] = protect(func() {
			switch op {
			case "Reset":
				nk, nv = num(c, "nk"), num(c, "nv")
				bm["a"], bm["b"] = new(maps.Bimap[int, int]), new(maps.Bimap[int, int]) // zero values
			case "Add":
				bm[n].Add(bmKey(num(c, "k")), bmVal(num(c, "v")))
			case "RemoveForward":
				bm[n].RemoveForward(bmKey(num(c, "k")))
			case "RemoveReverse":
				bm[n].RemoveReverse(bmVal(num(c, "v")))
			case "GetForward":
				v, ok := bm[n].GetForward(bmKey(num(c, "k")))
				e["pr"], e["pok"] = bmValID(v, ok), ok
			case "GetReverse":
				k, ok := bm[n].GetReverse(bmVal(num(c, "v")))
				e["pr"], e["pok"] = bmKeyID(k, ok), ok
			case "ContainsForward":
				e["pr"], e["pok"] = 0, bm[n].ContainsForward(bmKey(num(c, "k")))
			case "ContainsReverse":
				e["pr"], e["pok"] = 0, bm[n].ContainsReverse(bmVal(num(c, "v")))
			case "RangeDel", "RangeAdd":
				// Range whose callback changes the bimap at the first pair it sees: removes the pair of key k (RangeDel), or adds
				// (k, v), evicting whatever used k or v (RangeAdd).  Recorded: the pairs the callback was shown, in order.
				vis := [][]int{}
				first := true
				bm[n].Range(func(k, v int) bool {
					vis = append(vis, []int{bmKeyID(k, true), bmValID(v, true)})
					if first {
						first = false
						if op == "RangeDel" {
							bm[n].RemoveForward(bmKey(num(c, "k")))
						} else {
							bm[n].Add(bmKey(num(c, "k")), bmVal(num(c, "v")))
						}
					}
					return true
				})
				e["vis"] = vis
			case "Clear":
				bm[n].Clear()
			case "Clone":
				cl := bm[n].Clone()
				bm[other(n)] = &cl
			}
		})
		var oa, ob M
		quiet := boolean(c, "q") // large universes: the whole API is read back only at chosen points, Len always
		e["q"] = quiet
		p2 := protect(func() {
			if quiet {
				oa, ob = M{"len": bm["a"].Len()}, M{"len": bm["b"].Len()}
				return
			}
			oa, ob = obsBimap(bm["a"], nk, nv), obsBimap(bm["b"], nk, nv)
		})
		if e["panic"] == "" {
			e["panic"] = p2
		}
		e["obs"] = M{"a": oa, "b": ob}
		if oa != nil && ob != nil && !quiet {
			e["x"] = M{"a": oa["fw"], "b": ob["fw"]}
		}
		out.Emit(e)
	}
}

func bmKey(id int) int { return id - 1 }
func bmVal(id int) int { return (id - 11) * 7 }
func bmKeyID(k int, ok bool) int {
	if !ok {
		return 0
	}
	return k + 1
}
func bmValID(v int, ok bool) int {
	if !ok {
		return 0
	}
	return v/7 + 11
}
