package main

import (
	"fmt"
	"runtime"
	"strings"
	"sync"
	"sync/atomic"
	"time"

	"gopkg.in/typ.v4/chans"
)

// C10: chans.PubSub driven through scenario scripts; no hooks, only what a user of the package can do and see.
// A scenario is {"timeout":bool, "steps":[...]}; steps:
//
//	{"do":"sub","c":id,"buf":n}            subscribe (channel gets the harness id c)
//	{"do":"pub","id":n,"kind":K,"n":k,"only":c}   start publish call n on its own goroutine; values id*10+1..k
//	{"do":"waitret","id":n}                wait until call n has returned, then drain every subscription without blocking, then check
//	{"do":"recv","c":id}                   receive one value from subscription c (waits up to 1.5s)
//	{"do":"unsub","c":id} {"do":"unsuball"}   (c = 0: nil channel, c = 99: a channel that was never subscribed)
//	{"do":"quiesce"}                       wait until every goroutine of the package is parked or gone
//	{"do":"sleep","ms":n}
//	{"do":"end"}                           quiesce, drain everything, final accounting
//
// Every event is flushed at once, so that the trace survives a crash of the process.
func init() { comps["pubsub"] = drivePubSub }

type psWorld struct {
	mu   sync.Mutex
	out  *Out
	ps   *chans.PubSub[int]
	subs map[int]<-chan int
	ret  map[int]chan struct{}
	tmo  bool

	unsubDone chan struct{}
	clones    map[int]*chans.PubSub[int]
}

func (w *psWorld) log(e M) {
	w.mu.Lock()
	w.out.Emit(e)
	w.out.w.Flush()
	w.mu.Unlock()
}

// quiesce waits until no goroutine is running inside package chans except parked ones (channel send, select, mutex, WaitGroup).
func quiesce(max time.Duration) bool {
	deadline := time.Now().Add(max)
	buf := make([]byte, 1<<20)
	stable := 0
	for time.Now().Before(deadline) {
		n := runtime.Stack(buf, true)
		busy := false
		for _, g := range strings.Split(string(buf[:n]), "\n\n") {
			if !strings.Contains(g, "typ.v4/chans.") {
				continue
			}
			hdr := g
			if i := strings.IndexByte(g, '\n'); i >= 0 {
				hdr = g[:i]
			}
			parked := strings.Contains(hdr, "[chan send") || strings.Contains(hdr, "[select") || strings.Contains(hdr, "[semacquire") ||
				strings.Contains(hdr, "[sync.Mutex") || strings.Contains(hdr, "[sync.RWMutex") || strings.Contains(hdr, "[sync.WaitGroup") ||
				strings.Contains(hdr, "[chan receive")
			if !parked {
				busy = true
			}
		}
		if !busy {
			stable++
			if stable >= 3 {
				return true
			}
		} else {
			stable = 0
		}
		time.Sleep(500 * time.Microsecond)
	}
	return false
}

func (w *psWorld) drainNow() {
	for c, ch := range w.subs {
		for {
			select {
			case v, ok := <-ch:
				if !ok {
					goto next
				}
				w.log(M{"ev": "recv", "c": c, "v": v, "how": "imm"})
				continue
			default:
			}
			break
		}
	next:
	}
}

func drivePubSub(plan []M, out *Out, _ []string) {
	for si, sc := range plan {
		out.Journal(M{"ev": "begin", "plan": si})
		if b := str(sc, "burst"); b != "" {
			out.Emit(M{"ev": "reset", "plan": si, "timeout": b == "slot"})
			if b == "unsub" {
				psUnsubBurst(sc, out)
			} else {
				psSlotBurst(sc, out)
			}
			continue
		}
		w := &psWorld{out: out, subs: map[int]<-chan int{}, ret: map[int]chan struct{}{}, tmo: boolean(sc, "timeout"), clones: map[int]*chans.PubSub[int]{}}
		w.ps = &chans.PubSub[int]{}
		if w.tmo {
			w.ps.PubTimeoutAfter = 40 * time.Millisecond
			w.ps.OnPubTimeout = func(v int) { w.log(M{"ev": "timeout_cb", "v": v, "tmo_on": true}) }
		}
		w.log(M{"ev": "reset", "plan": si, "timeout": w.tmo})
		steps, _ := sc["steps"].([]any)
		foreign := make(chan int)
		for _, x := range steps {
			st := x.(M)
			switch str(st, "do") {
			case "sub":
				c := num(st, "c")
				w.subs[c] = w.ps.SubBuf(num(st, "buf"))
				w.log(M{"ev": "sub", "c": c, "buf": num(st, "buf")})
			case "pub":
				id, kind, n, only := num(st, "id"), str(st, "kind"), num(st, "n"), num(st, "only")
				vals := []int{}
				for i := 1; i <= n; i++ {
					vals = append(vals, id*10+i)
				}
				ps := w.ps
				if via := num(st, "via"); via != 0 {
					ps = w.clones[via] // a WithOnly clone made earlier (it may outlive the subscription)
				} else if only != 0 {
					ps = w.ps.WithOnly(w.subs[only])
				}
				done := make(chan struct{})
				w.ret[id] = done
				w.log(M{"ev": "pub_start", "id": id, "kind": kind, "n": n, "only": only})
				go func() {
					switch kind {
					case "Pub":
						ps.Pub(vals[0])
					case "PubSlice":
						ps.PubSlice(vals)
					case "PubWait":
						ps.PubWait(vals[0])
					case "PubSliceWait":
						ps.PubSliceWait(vals)
					case "PubSync":
						ps.PubSync(vals[0])
					case "PubSliceSync":
						ps.PubSliceSync(vals)
					}
					// the caller owns its slice again once the call has returned: reuse it
					for i := range vals {
						vals[i] = -7
					}
					w.log(M{"ev": "pub_ret", "id": id})
					close(done)
				}()
			case "waitret":
				id := num(st, "id")
				if _, ok := patientRecv(w.ret[id], 3*time.Second); ok {
					w.drainNow()
					w.log(M{"ev": "retcheck", "id": id})
				} else {
					w.log(M{"ev": "stuck", "what": fmt.Sprint("publish call ", id, " did not return")})
				}
			case "recv":
				c := num(st, "c")
			recvLoop:
				for p := newPatience(1500 * time.Millisecond); ; {
					select {
					case v, ok := <-w.subs[c]:
						if ok {
							w.log(M{"ev": "recv", "c": c, "v": v, "how": "block"})
						} else {
							w.log(M{"ev": "recv_closed", "c": c})
						}
						break recvLoop
					case <-p.Tick():
						if p.Out() {
							w.log(M{"ev": "recv_none", "c": c})
							break recvLoop
						}
					}
				}
			case "withonly":
				w.clones[num(st, "w")] = w.ps.WithOnly(w.subs[num(st, "c")])
			case "unsub_async":
				// Unsub on its own goroutine (it has to wait for a Sync publish that holds the read lock)
				c := num(st, "c")
				ud := make(chan struct{})
				w.unsubDone = ud
				ch := w.subs[c]
				go func() {
					w.log(M{"ev": "unsub_start", "c": c})
					err := w.ps.Unsub(ch)
					es := ""
					if err == chans.ErrAlreadyUnsubscribed {
						es = "already"
					} else if err != nil {
						es = err.Error()
					}
					w.log(M{"ev": "unsub_ret", "c": c, "err": es})
					close(ud)
				}()
				time.Sleep(2 * time.Millisecond)
			case "wait_unsub":
				if _, ok := patientRecv(w.unsubDone, 3*time.Second); !ok {
					w.log(M{"ev": "stuck", "what": "Unsub did not return"})
				}
			case "unsub":
				c := num(st, "c")
				var ch <-chan int
				switch c {
				case 0:
					ch = nil
				case 99:
					ch = foreign
				default:
					ch = w.subs[c]
				}
				w.log(M{"ev": "unsub_start", "c": c})
				err := w.ps.Unsub(ch)
				es := ""
				switch err {
				case nil:
				case chans.ErrAlreadyUnsubscribed:
					es = "already"
				case chans.ErrSubscriptionNotInitalized:
					es = "notinit"
				default:
					es = err.Error()
				}
				w.log(M{"ev": "unsub_ret", "c": c, "err": es})
			case "unsuball":
				w.ps.UnsubAll()
				w.log(M{"ev": "unsuball"})
			case "quiesce":
				if !quiesce(3 * time.Second) {
					w.log(M{"ev": "info", "what": "not quiescent after 3s"})
				}
			case "sleep":
				time.Sleep(time.Duration(num(st, "ms")) * time.Millisecond)
			case "end":
				// let everything settle: pending sends either complete (we drain), time out, or stay parked on a removed channel
				for round := 0; round < 6; round++ {
					quiesce(2 * time.Second)
					w.drainNow()
					if w.tmo {
						time.Sleep(60 * time.Millisecond)
					}
				}
				allret := true
				for id, d := range w.ret {
					if _, ok := patientRecv(d, 2*time.Second); !ok {
						allret = false
						w.log(M{"ev": "stuck", "what": fmt.Sprint("publish call ", id, " never returned")})
					}
				}
				if allret {
					quiesce(time.Second)
					w.drainNow()
					w.log(M{"ev": "end"})
				}
			}
		}
		// release goroutines still parked on channels nobody will read: unsubscribe everything, drain
		w.ps.UnsubAll()
	}
}

// psUnsubBurst: rounds of simultaneous Unsub calls, nothing controlled: n subscribers (buffer 1), dup goroutines per channel
// released together.  Per channel exactly one Unsub returns nil and the others ErrAlreadyUnsubscribed; afterwards a PubSync reaches
// nobody and every channel is closed and empty.  One summary line per batch (plus the first bad round).
func psUnsubBurst(sc M, out *Out) {
	n, dup, rounds := num(sc, "n"), num(sc, "dup"), num(sc, "rounds")
	bad, first := 0, M{}
	for r := 0; r < rounds && bad == 0; r++ {
		ps := &chans.PubSub[int]{}
		subs := make([]<-chan int, n)
		for i := range subs {
			subs[i] = ps.SubBuf(1)
		}
		nils := make([]int32, n)
		other := int32(0)
		var wg sync.WaitGroup
		start := make(chan struct{})
		for i := 0; i < n; i++ {
			for d := 0; d < dup; d++ {
				wg.Add(1)
				go func(i int) {
					defer wg.Done()
					<-start
					err := ps.Unsub(subs[i])
					if err == nil {
						atomic.AddInt32(&nils[i], 1)
					} else if err != chans.ErrAlreadyUnsubscribed {
						atomic.AddInt32(&other, 1)
					}
				}(i)
			}
		}
		close(start)
		wg.Wait()
		ps.PubSync(42)
		once, closed, got := 0, 0, 0
		for i, ch := range subs {
			if nils[i] == 1 {
				once++
			}
			select {
			case _, ok := <-ch:
				if ok {
					got++
				} else {
					closed++
				}
			default:
			}
		}
		if once != n || closed != n || got != 0 || other != 0 {
			bad++
			first = M{"round": r, "once": once, "closed": closed, "got": got, "other": int(other)}
			ps.UnsubAll()
		}
	}
	out.Emit(M{"ev": "uburst", "n": n, "dup": dup, "rounds": rounds, "bad": bad, "first": first})
}

// psSlotBurst: rounds with a positive PubTimeoutAfter, one subscriber with buffer buf that nobody receives from, and pubs
// simultaneous publishers (PubSync, or PubWait when wait is set).  Every call returns; deliveries (what sits in the buffer) plus
// OnPubTimeout calls = pubs, deliveries <= buf.  Stops at the first bad round (a stuck publisher keeps the read lock).
func psSlotBurst(sc M, out *Out) {
	pubs, buf, rounds, wait := num(sc, "pubs"), num(sc, "buf"), num(sc, "rounds"), boolean(sc, "wait")
	bad, first := 0, M{}
	for r := 0; r < rounds && bad == 0; r++ {
		var tmo int32
		ps := &chans.PubSub[int]{PubTimeoutAfter: 200 * time.Microsecond, OnPubTimeout: func(int) { atomic.AddInt32(&tmo, 1) }}
		ch := ps.SubBuf(buf)
		var ret int32
		start := make(chan struct{})
		done := make(chan struct{}, pubs)
		for p := 0; p < pubs; p++ {
			go func(p int) {
				<-start
				if wait {
					ps.PubWait(p)
				} else {
					ps.PubSync(p)
				}
				atomic.AddInt32(&ret, 1)
				done <- struct{}{}
			}(p)
		}
		close(start)
		pt := newPatience(2 * time.Second)
	wait:
		for i := 0; i < pubs; {
			select {
			case <-done:
				i++
			case <-pt.Tick():
				if pt.Out() {
					break wait
				}
			}
		}
		deliv := len(ch)
		if int(atomic.LoadInt32(&ret)) != pubs || deliv+int(atomic.LoadInt32(&tmo)) != pubs || deliv > buf {
			bad++
			first = M{"round": r, "returned": int(ret), "delivered": deliv, "timeouts": int(tmo)}
		}
	}
	out.Emit(M{"ev": "sburst", "pubs": pubs, "buf": buf, "rounds": rounds, "bad": bad, "first": first})
}
