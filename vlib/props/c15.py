"""C15 - sorting and searching helpers order correctly, stably where promised (DESIGN.md section 7-C15)."""
from ..core import *

CLAUSES = ["I_NoPanic", "I_Perm", "I_Order", "I_Stable", "I_Search", "I_ShuffleDet", "I_Big"]
SORTS = ["Sort", "SortDesc", "SortFunc", "SortDescFunc", "SortStableFunc", "SortStableDescFunc"]


def execute(run, plans):
    return [[e] for e in run_driver(run, "sortsearch", [c for p in plans for c in p])]


def check(run):
    ml, msl = (4, 4) if run.quick() else (6, 5)
    mc = model_check(run, "slices", "SortSearch", dict(Keys=tla_set([1, 2, 3]), MaxLen=ml, MaxSearchLen=msl), invariants=["PropOK"],
                     edges=True)
    plans = []
    for e in mc["edges"]:
        o = e["op"]
        c = dict(op=o["op"], s=o["s"], t=o["t"], d=10)
        if o["op"] in ("Sort", "SortDesc", "SortStableFunc", "SortStableDescFunc"):
            c["x"] = o["res"]
        if o["op"].startswith("Binary"):
            c["xi"] = o["ri"]
        plans.append([c])
    # beyond the bounds: Go's sort switches algorithm at 12 elements and the stable sort works in blocks of 20
    for j in range(40 if run.quick() else 800):
        n = run.rng.choice([12, 13, 19, 20, 21, 40, 41, 64, 100]) if j % 2 else run.rng.randint(7, 120)
        nk = run.rng.choice([1, 2, 3, 5, 50])
        op = run.rng.choice(SORTS)
        if op in ("Sort", "SortDesc"):
            s = [run.rng.randint(1, nk) for _ in range(n)]
            plans.append([dict(op=op, s=s, t=0, d=10)])
        else:
            s = [run.rng.randint(1, nk) * 1000 + i + 1 for i in range(n)]
            plans.append([dict(op=op, s=s, t=0, d=1000)])
    # structured inputs (what adaptive sorts and hand-written searches special-case): sorted, reversed, a sorted head with a short
    # unsorted tail (values below, inside and above the head), one displaced element, two runs, organ pipe, saw-tooth, all equal
    def shapes(n):
        base = [10 * (i + 1) for i in range(n)]
        out = [list(base), base[::-1], [7] * n, base[: n // 2] + base[: n - n // 2], base[::2] + base[1::2][::-1],
               [(i * 7) % 5 + 1 for i in range(n)]]
        for tail in ([5], [n * 10 + 5], [55, n * 10 + 1000], [n * 10 + 1000, 55], [n * 5 + 5, 3, n * 10 + 7], [n * 10 + 9, n * 10 + 8, n * 10 + 7, 1]):
            out.append(base[: max(0, n - len(tail))] + tail)
        if n > 2:
            i, j = run.rng.randrange(n), run.rng.randrange(n)
            d = list(base)
            d.insert(j, d.pop(i))
            out.append(d)
        return out
    sizes = [3, 8, 9, 12, 13, 16, 17, 18, 20, 24, 33, 50, 65] + ([] if run.quick() else [100, 129, 200, 257, 300])
    for n in sizes:
        for sh in shapes(n):
            for op in (SORTS if not run.quick() else ["Sort", run.rng.choice(SORTS[1:])]):
                if op in ("Sort", "SortDesc"):
                    plans.append([dict(op=op, s=sh, t=0, d=10)])
                else:
                    plans.append([dict(op=op, s=[(v % 1000) * 1000 + i + 1 for i, v in enumerate(sh)], t=0, d=1000)])
    # searches: every target (present, absent between any two values, below, above) in ascending slices of every length up to a bound,
    # without and with runs of equal values; larger lengths with the boundary targets and a seeded sample
    for n in (range(0, 26) if run.quick() else range(0, 70)):
        for vals in ([2 * (i + 1) for i in range(n)], [2 * (i // 3 + 1) for i in range(n)]):
            for t in range(0, (vals[-1] if vals else 0) + 2):
                for op in ("BinarySearch", "BinarySearchFunc"):
                    plans.append([dict(op=op, s=vals, t=t, d=10)])
    for n in ([33, 64, 65, 100, 129] if run.quick() else [33, 64, 65, 100, 127, 128, 129, 255, 256, 257, 500]):
        vals = [2 * (i + 1) for i in range(n)]
        ts = {0, 1, 2, 3, 2 * n - 1, 2 * n, 2 * n + 1, n, n + 1} | {run.rng.randint(0, 2 * n + 1) for _ in range(16 if run.quick() else 60)}
        for t in sorted(ts):
            for op in ("BinarySearch", "BinarySearchFunc"):
                plans.append([dict(op=op, s=vals, t=t, d=10)])
    # other ordered element types (8-bit integers with the type's minimum and maximum, floats, strings), lengths past 128 / 256
    for ty in ("int8", "uint8", "float64", "string"):
        for n in ((5, 130, 300) if run.quick() else (5, 64, 127, 128, 129, 130, 256, 257, 300, 700)):
            for shape in ("rand", "few", "ext"):
                if shape == "rand":
                    sv = [run.rng.randint(0, 255) for _ in range(n)]
                elif shape == "few":
                    sv = [run.rng.choice([0, 1, 128, 255]) for _ in range(n)]
                else:
                    sv = [0, 255] * (n // 2) + [0] * (n % 2)
                for op in ("Sort", "SortDesc"):
                    plans.append([dict(op=op, s=sv, t=0, d=10, ty=ty)])
                plans.append([dict(op="BinarySearch", s=sorted(sv), t=run.rng.choice([0, 1, 128, 255, 77]), d=10, ty=ty)])
    # strings that differ only in trailing NUL bytes (what a packed-prefix comparison cannot tell apart), 16 and more of them
    for n in ((5, 16, 17, 40) if run.quick() else (5, 15, 16, 17, 33, 64, 200)):
        for rep in range(3):
            sv = [run.rng.randint(0, 19) for _ in range(n)]
            for op in ("Sort", "SortDesc"):
                plans.append([dict(op=op, s=sv, t=0, d=10, ty="nulstr")])
            plans.append([dict(op="BinarySearch", s=sorted(sv), t=run.rng.randint(0, 19), d=10, ty="nulstr")])
    # thousands of elements, given by a formula and checked through a lossless run encoding of the result
    for n in ((2049, 2051, 4099) if run.quick() else (1025, 2048, 2049, 2050, 2051, 4099, 8191, 10007, 20001)):
        for (a, b, m) in ((3, 1, 7), (1, 0, 3)) if run.quick() else ((3, 1, 7), (1, 0, 3), (5, 2, 11), (2, 0, 5)):
            for v in SORTS:
                plans.append([dict(op="BigSort", variant=v, n=n, a=a, b=b, m=m, d=32768, s=[], t=0)])
    for j in range(20 if run.quick() else 300):
        n = run.rng.randint(0, 60)
        s = sorted(run.rng.randint(1, 30) for _ in range(n))
        plans.append([dict(op=run.rng.choice(["BinarySearch", "BinarySearchFunc"]), s=s, t=run.rng.randint(0, 31), d=10)])
        s2 = [run.rng.randint(1, 9) for _ in range(run.rng.randint(0, 30))]
        plans.append([dict(op=run.rng.choice(["Shuffle", "ShuffleRand"]), s=s2, t=run.rng.randint(1, 1000), d=10)])
    segs = execute(run, plans)
    if len(segs) != len(plans):
        raise Inconclusive("driver returned %d events for %d plans" % (len(segs), len(plans)))
    pl2 = []
    for p in plans:
        c = dict(p[0])
        if "x" in c:
            c["res"] = c["x"]
        if "xi" in c:
            c["ri"] = c["xi"]
        else:
            c.pop("ri", None)
        pl2.append([c])
    conf = conformance(pl2, segs, ["res", "ri"])
    validate(run, "slices", "SortAbsTrace", {}, segs, CLAUSES, plans=plans)
    run.cov.update(conformance=conf, exhaustive=True,
                   distinct_nontrivial=distinct_count(segs, lambda s: len(s[0].get("s", [0, 0])) > 1),
                   rule="one case per (variant, key sequence over {1,2,3} up to length %d with position tags) and per (ascending slice over "
                        "1..4 up to length %d, target 0..5) enumerated by TLC from SortSearch.tla, plus seeded inputs of length 7..120 "
                        "(past Go's insertion-sort and stable-block thresholds), structured sort inputs (sorted, reversed, sorted head + short tail, "
                        "two runs, organ pipe, saw-tooth, equal) at 13-18 sizes, and every target of every ascending slice up to length 25 / 69; "
                        "non-trivial = at least 2 elements" % (ml, msl))
    run.cov["samples"] = [segs[50][0], segs[-1][0]]
    run.assumptions += ["element type int; *Func variants use a key-only less on key*d+tag", "NaN-free (ints)"]
    return finish(run, reexec=lambda rej: execute(run, [rej["plan"]])[0])


def replay(run, rp):
    segs = execute(run, [rp["plan"]])
    validate(run, "slices", "SortAbsTrace", {}, segs, CLAUSES, plans=[rp["plan"]])
    return finish(run, reexec=lambda rej: execute(run, [rej["plan"]])[0])
