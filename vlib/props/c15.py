"""C15 - sorting and searching helpers order correctly, stably where promised (DESIGN.md section 7-C15)."""
from ..core import *

CLAUSES = ["I_NoPanic", "I_Perm", "I_Order", "I_Stable", "I_Search", "I_ShuffleDet"]
SORTS = ["Sort", "SortDesc", "SortFunc", "SortDescFunc", "SortStableFunc", "SortStableDescFunc"]


def execute(run, plans):
    return [[e] for e in run_driver(run, "sortsearch", [c for p in plans for c in p])]


def check(run):
    ml, msl = (4, 4) if run.quick() else (6, 5)
    mc = model_check(run, "slices", "SortSearch", dict(Keys=tla_set([1, 2, 3]), MaxLen=ml, MaxSearchLen=msl), invariants=["PropOK"],
                     edges=True)
    plans = []
    for e in mc["edges"]:
        o = e["op"]
        c = dict(op=o["op"], s=o["s"], t=o["t"], d=10)
        if o["op"] in ("Sort", "SortDesc", "SortStableFunc", "SortStableDescFunc"):
            c["x"] = o["res"]
        if o["op"].startswith("Binary"):
            c["xi"] = o["ri"]
        plans.append([c])
    # beyond the bounds: Go's sort switches algorithm at 12 elements and the stable sort works in blocks of 20
    for j in range(40 if run.quick() else 800):
        n = run.rng.choice([12, 13, 19, 20, 21, 40, 41, 64, 100]) if j % 2 else run.rng.randint(7, 120)
        nk = run.rng.choice([1, 2, 3, 5, 50])
        op = run.rng.choice(SORTS)
        if op in ("Sort", "SortDesc"):
            s = [run.rng.randint(1, nk) for _ in range(n)]
            plans.append([dict(op=op, s=s, t=0, d=10)])
        else:
            s = [run.rng.randint(1, nk) * 1000 + i + 1 for i in range(n)]
            plans.append([dict(op=op, s=s, t=0, d=1000)])
    for j in range(20 if run.quick() else 300):
        n = run.rng.randint(0, 60)
        s = sorted(run.rng.randint(1, 30) for _ in range(n))
        plans.append([dict(op=run.rng.choice(["BinarySearch", "BinarySearchFunc"]), s=s, t=run.rng.randint(0, 31), d=10)])
        s2 = [run.rng.randint(1, 9) for _ in range(run.rng.randint(0, 30))]
        plans.append([dict(op=run.rng.choice(["Shuffle", "ShuffleRand"]), s=s2, t=run.rng.randint(1, 1000), d=10)])
    segs = execute(run, plans)
    if len(segs) != len(plans):
        raise Inconclusive("driver returned %d events for %d plans" % (len(segs), len(plans)))
    pl2 = []
    for p in plans:
        c = dict(p[0])
        if "x" in c:
            c["res"] = c["x"]
        if "xi" in c:
            c["ri"] = c["xi"]
        else:
            c.pop("ri", None)
        pl2.append([c])
    conf = conformance(pl2, segs, ["res", "ri"])
    validate(run, "slices", "SortAbsTrace", {}, segs, CLAUSES, plans=plans)
    run.cov.update(conformance=conf, exhaustive=True,
                   distinct_nontrivial=distinct_count(segs, lambda s: len(s[0]["s"]) > 1),
                   rule="one case per (variant, key sequence over {1,2,3} up to length %d with position tags) and per (ascending slice over "
                        "1..4 up to length %d, target 0..5) enumerated by TLC from SortSearch.tla, plus seeded inputs of length 7..120 "
                        "(past Go's insertion-sort and stable-block thresholds); non-trivial = at least 2 elements" % (ml, msl))
    run.cov["samples"] = [segs[50][0], segs[-1][0]]
    run.assumptions += ["element type int; *Func variants use a key-only less on key*d+tag", "NaN-free (ints)"]
    return finish(run, reexec=lambda rej: execute(run, [rej["plan"]])[0])


def replay(run, rp):
    segs = execute(run, [rp["plan"]])
    validate(run, "slices", "SortAbsTrace", {}, segs, CLAUSES, plans=[rp["plan"]])
    return finish(run, reexec=lambda rej: execute(run, [rej["plan"]])[0])
