"""C12 - slice splicing helpers equal the splice model for every index and capacity (DESIGN.md section 7-C12)."""
from ..core import *

CLAUSES = ["I_NoPanic", "I_Splice", "I_Fill", "I_Reverse", "I_New", "I_Grow", "I_ArgsKept"]


def execute(run, plans):
    return [[e] for e in run_driver(run, "splice", [c for p in plans for c in p])]


def case(op, s, spare=0, i=0, k=0, v=41, vs=(), t=()):
    return dict(op=op, s=list(s), spare=spare, i=i, k=k, v=v, vs=list(vs), t=list(t))


def check(run):
    ml, msp, mi = (5, 3, 3) if run.quick() else (9, 4, 4)
    mc = model_check(run, "slices", "Splice", dict(MaxLen=ml, MaxSpare=msp, MaxIns=mi), invariants=["DefOK"], edges=True)
    plans = []
    for e in mc["edges"]:
        o = e["op"]
        n = o["n"]
        plans.append([dict(case(o["op"], range(1, n + 1), o["spare"], o["i"], o["k"], 41, [41 + j for j in range(o["k"])]),
                           x=o["res"])])
    # Concat / Clone / Repeat cells (no in-place mechanics to transcribe) and the doubling-fill lengths 2^k, 2^k +- 1
    for n in range(0, ml + 1):
        for sp in range(0, msp + 1):
            plans.append([case("Clone", range(1, n + 1), sp)])
            for m in range(0, 4):
                plans.append([case("Concat", range(1, n + 1), sp, t=range(51, 51 + m))])
    lens = list(range(0, 20)) + [31, 32, 33, 63, 64, 65, 127, 128, 129, 130, 255, 256, 257]
    if not run.quick():
        lens += [511, 512, 513, 1000, 1023, 1024, 1025]
    for n in lens:
        plans.append([case("Repeat", [], k=n, v=7)])
        plans.append([case("Fill", [run.rng.randint(1, 5) for _ in range(n)], spare=run.rng.randint(0, 3), v=8)])
        plans.append([case("Reverse", [run.rng.randint(1, 5) for _ in range(n)])])
    for j in range(40 if run.quick() else 1000):
        n = run.rng.randint(0, 30)
        s = [run.rng.randint(1, 9) for _ in range(n)]
        sp = run.rng.choice([0, 0, 1, 2, 5, 40])
        op = run.rng.choice(["Insert", "InsertSlice", "Remove", "RemoveSlice", "Grow"])
        if op == "Remove" and n == 0:
            continue
        i = run.rng.randint(0, n if op != "Remove" else n - 1)
        k = run.rng.randint(0, n - i) if op == "RemoveSlice" else run.rng.randint(0, 8)
        plans.append([case(op, s, sp, i, k, 41, [run.rng.randint(40, 49) for _ in range(k)])])
    # "whatever spare capacity the slice had": short contents in large backing arrays (what is left of a slice that was once big):
    # every position and count for lengths up to 9 / 12 with spare capacities 60..1000, plus a few longer ones
    big = []
    for sp in (60, 64, 100, 250, 1000):
        for n in list(range(0, 10 if run.quick() else 13)) + [16, 33]:
            s0 = list(range(1, n + 1))
            for i in range(0, n + 1):
                if n > 12 and i not in (0, 1, n // 2, n - 1, n):
                    continue
                if i < n:
                    big.append([case("Remove", s0, sp, i)])
                for k in range(0, n - i + 1):
                    if n > 12 and k not in (0, 1, 2, n - i - 1, n - i):
                        continue
                    big.append([case("RemoveSlice", s0, sp, i, k)])
                for k in (0, 1, 3):
                    big.append([case("InsertSlice", s0, sp, i, k, 41, [41 + j for j in range(k)])])
                big.append([case("Insert", s0, sp, i, 0, 41)])
            big.append([case("Grow", s0, sp, 0, 5)])
    plans += big if not run.quick() else run.rng.sample(big, 1200)
    # element sizes that are not powers of two, slices longer than any block a filling loop might use
    for ty, ns in (("s24", (17, 1025, 1200, 2100)), ("b3", (17, 1025, 8200, 8300)), ("b1200", (16, 17, 18, 40, 100))):
        for n in (ns if not run.quick() else ns[:3] + ns[-1:]):
            plans.append([dict(case("Repeat", [], k=n, v=7), ty=ty)])
            plans.append([dict(case("Fill", [2] * n, spare=1, v=9), ty=ty)])
            plans.append([dict(case("Reverse", [(j % 5) + 1 for j in range(n)]), ty=ty)])
    # inputs that are neighbouring views of one backing array (a result that merely re-slices them is not "new")
    for n in range(0, 5):
        for m in range(0, 4):
            for sp in (0, 2):
                plans.append([dict(case("Concat", range(1, n + 1), sp, t=range(51, 51 + m)), adj=True)])
    # other element types: floats with negative zero (code -1000), element types that cannot be compared (slices, structs holding
    # slices), strings with the empty string
    for ty in ("float", "slice", "struct", "string"):
        vals = [0, 1, 7] + ([-1000] if ty == "float" else [])
        for v in vals:
            for k in (0, 1, 2, 5, 33):
                plans.append([dict(case("Repeat", [], k=k, v=v), ty=ty)])
            for n in (0, 1, 3, 9):
                plans.append([dict(case("Fill", [2] * n, spare=1, v=v), ty=ty)])
        for n in (0, 1, 2, 5, 18):
            s0 = [(j % 4) for j in range(n)] if ty != "float" else [(-1000 if j % 3 == 0 else j) for j in range(n)]
            plans.append([dict(case("Reverse", s0), ty=ty)])
            plans.append([dict(case("Clone", s0, 2), ty=ty)])
            plans.append([dict(case("Concat", s0, 1, t=[3, 0, 2][: n % 4]), ty=ty)])
            plans.append([dict(case("Grow", s0, 2, 0, 3), ty=ty)])
            for i in sorted({0, n // 2, n}):
                plans.append([dict(case("Insert", s0, 1, i, 0, 0), ty=ty)])
                plans.append([dict(case("InsertSlice", s0, 1, i, 2, 0, [0, 3]), ty=ty)])
                if i < n:
                    plans.append([dict(case("Remove", s0, 1, i), ty=ty)])
                    plans.append([dict(case("RemoveSlice", s0, 1, i, min(2, n - i)), ty=ty)])
    segs = execute(run, plans)
    if len(segs) != len(plans):
        raise Inconclusive("driver returned %d events for %d plans" % (len(segs), len(plans)))
    conf = conformance([[dict(p[0], res=p[0]["x"])] if "x" in p[0] else p for p in plans], segs, ["res"])
    validate(run, "slices", "SpliceAbsTrace", {}, segs, CLAUSES, plans=plans)
    run.cov.update(conformance=conf, exhaustive=True,
                   distinct_nontrivial=distinct_count(segs, lambda s: len(s[0]["s"]) + s[0]["k"] > 0),
                   rule="one case per (helper, length 0..%d, spare capacity 0..%d, position, count) cell enumerated by TLC from Splice.tla "
                        "+ Concat/Clone/Repeat cells + fill/reverse lengths around powers of two + seeded larger cases + short contents in backing "
                        "arrays with 60-1000 spare elements (every position and count; quick: 1200 sampled); "
                        "non-trivial = non-empty input or count" % (ml, msp))
    run.cov["samples"] = [segs[7][0], segs[-1][0]]
    run.assumptions += ["element types int, float64 (negative zero included), []int, a struct holding a slice, string", "GoSlice growth policy: any capacity >= needed (contents do not depend on it)"]
    return finish(run, reexec=lambda rej: execute(run, [rej["plan"]])[0])


def replay(run, rp):
    segs = execute(run, [rp["plan"]])
    validate(run, "slices", "SpliceAbsTrace", {}, segs, CLAUSES, plans=[rp["plan"]])
    return finish(run, reexec=lambda rej: execute(run, [rej["plan"]])[0])
