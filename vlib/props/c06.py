"""C06 - lists.List / lists.Ring behave exactly like container/list and container/ring (DESIGN.md section 7-C06)."""
from ..core import *

CLAUSES = ["I_SameRet", "I_SameObs", "I_SamePanic"]


def execute(run, comp, plans):
    return split_segments(run_driver(run, comp, [c for p in plans for c in p], timeout=3000))


def list_plans(run):
    me = 3 if run.quick() else 4
    mc = model_check(run, "lists", "LinkedList", dict(MaxE=me), invariants=["Refines", "WellFormed"], edges=True, label="2 lists, <= %d handles" % me,
                     timeout=3000)
    z = [0] * (me + 2)
    init = None
    for e in mc["edges"]:
        if e["f"][3] == 0:
            init = e["f"]
            break
    paths, st = tour(mc["edges"], [init], run.rng, max_len=30)
    plans = []
    for p in paths:
        pl = [dict(op="Reset")]
        for e in p:
            o = e["op"]
            pl.append(dict(op=o["op"], l=o["l"], e=o["e"], m=o["m"], fret=o["ret"] if o["op"] != "Remove" else o["ret"], x=o["x"]))
        plans.append(pl)
    # beyond the bounds: seeded longer sequences, including Init on a non-empty list and operations on its orphans
    ops = ["PushFront", "PushBack", "InsertBefore", "InsertAfter", "Remove", "MoveToFront", "MoveToBack", "MoveBefore", "MoveAfter",
           "PushBackList", "PushFrontList", "Init"]
    gen = []
    for i in range(20 if run.quick() else 400):
        pl = [dict(op="Reset"), dict(op="PushBack", l=1, e=0, m=0)]
        n = 1
        for j in range(run.rng.randint(5, 40)):
            op = run.rng.choice(ops if i % 3 == 0 else ops[:-1])
            l = run.rng.choice([1, 2])
            if op in ("PushBackList", "PushFrontList"):
                if n > 30:
                    continue
                pl.append(dict(op=op, l=l, e=0, m=run.rng.choice([1, 2])))
                n += 12   # upper bound on the growth; handles are registered by the driver
                continue
            pl.append(dict(op=op, l=l, e=run.rng.randint(1, min(n, 6)), m=run.rng.randint(1, min(n, 6))))
            if op in ("PushFront", "PushBack"):
                n += 1
        # handle indices must exist: only the first element is guaranteed, so restrict e/m to 1 unless pushes happened
        cnt = 0
        for c in pl[1:]:
            if c["op"] in ("PushFront", "PushBack"):
                cnt += 1
            c["e"] = min(c.get("e", 1) or 1, max(cnt, 1))
            if c["op"] not in ("PushBackList", "PushFrontList"):
                c["m"] = min(c.get("m", 1) or 1, max(cnt, 1))
        gen.append(pl)
    # orphans of an Init: handles created before an Init still name the list (container/list leaves e.list alone), so calls on them go
    # through the list's code paths with a stale chain; every such call, then (optionally a push and) a second Init, then pushes - the
    # fork must do whatever the standard library does at every step (an Init that is skipped or partial shows in the next traversal)
    one = ["Remove", "MoveToFront", "MoveToBack"]
    two = ["MoveBefore", "MoveAfter", "InsertBefore", "InsertAfter"]
    fam = []
    for n in (1, 2, 3):
        for op in one + two:
            for e in range(1, n + 1):
                for m in (range(1, n + 1) if op in two[:2] else [e]):
                    for mid in ("", "PushBack", "PushFront"):
                        pl = [dict(op="Reset")] + [dict(op="PushBack", l=1, e=0, m=0) for _ in range(n)]
                        pl.append(dict(op="Init", l=1, e=1, m=1))
                        pl.append(dict(op=op, l=1, e=e, m=m))
                        if mid:
                            pl.append(dict(op=mid, l=1, e=0, m=0))
                        pl.append(dict(op="Init", l=1, e=1, m=1))
                        pl.append(dict(op="PushBack", l=1, e=0, m=0))
                        pl.append(dict(op="PushFront", l=1, e=0, m=0))
                        pl.append(dict(op=op, l=1, e=e, m=m))
                        pl.append(dict(op="Init", l=1, e=1, m=1))
                        pl.append(dict(op="PushBack", l=1, e=0, m=0))
                        fam.append(pl)
    gen += fam
    return plans, gen, st


def ring_plans(run):
    mn = 4 if run.quick() else 5
    mc = model_check(run, "lists", "Ring", dict(MaxN=mn, CNeg=2, CPos=mn + 2), invariants=["WellFormed"], properties=["LinkSplitsOrJoins"],
                     edges=True, label="rings <= %d nodes" % mn, timeout=3000)
    init = None
    for e in mc["edges"]:
        if e["f"][2] == 0:
            init = e["f"]
            break
    paths, st = tour(mc["edges"], [init], run.rng, max_len=25)
    plans = []
    for p in paths:
        pl = [dict(op="Reset")]
        for e in p:
            o = e["op"]
            pl.append(dict(op=o["op"], r=o["r"], q=o["q"], k=o["k"], obs=o["obs"], fret=o["ret"], x=o["x"]))
        plans.append(pl)
    gen = []
    for i in range(20 if run.quick() else 300):
        pl = [dict(op="Reset"), dict(op="NewRing", r=0, q=0, k=run.rng.randint(1, 6))]
        n = pl[1]["k"]
        for j in range(run.rng.randint(5, 30)):
            op = run.rng.choice(["NewRing", "Next", "Prev", "Move", "Link", "Unlink", "Link", "Unlink"])
            if op == "NewRing":
                k = run.rng.randint(-1, 4)
                if n + max(k, 0) > 20:
                    continue
                pl.append(dict(op=op, r=0, q=0, k=k))
                n += max(k, 0)
            else:
                pl.append(dict(op=op, r=run.rng.randint(1, n), q=run.rng.randint(0, n), k=run.rng.randint(-9, 12)))
        for c in pl[1:]:
            c["obs"] = [True] * 40    # every handle here comes from NewRing, i.e. is initialised
        gen.append(pl)
    # Do with a callback that changes the ring while it is being walked (a fresh node or a second ring linked in behind the element
    # just visited, the next element unlinked): the walk must see exactly what container/ring's walk sees
    for n in (1, 2, 3, 5):
        for start in sorted({1, n}):
            for at in range(1, n + 1):
                for mut in ("linknew", "link", "unlink"):
                    pl = [dict(op="Reset"), dict(op="NewRing", r=0, q=0, k=n), dict(op="NewRing", r=0, q=0, k=2)]
                    pl.append(dict(op="DoMut", r=start, q=n + 1, k=0, at=at, mut=mut))
                    pl.append(dict(op="DoMut", r=start, q=0, k=0, at=1, mut="linknew"))
                    for c in pl[1:]:
                        c["obs"] = [True] * 40
                    gen.append(pl)
    # big rings (block allocation boundaries at 64, 128 ...): only a handful of handles is observed after each call
    for n in ((65, 130) if run.quick() else (65, 129, 200, 300)):
        watch = sorted({1, 2, 63, 64, 65, 66, 67, n - 1, n, 127, 128, 129, 130} & set(range(1, n + 1)))
        obs = [i + 1 in watch for i in range(n)]
        pl = [dict(op="Reset"), dict(op="NewRing", r=0, q=0, k=n, obs=obs)]
        for h in watch:
            for k in (-1, -2, 1, 2, -64, 64, -65, n):
                pl.append(dict(op="Move", r=h, q=0, k=k, obs=obs))
            pl.append(dict(op="Prev", r=h, q=0, k=0, obs=obs))
            pl.append(dict(op="Next", r=h, q=0, k=0, obs=obs))
        for h in watch[:6]:
            pl.append(dict(op="Unlink", r=h, q=0, k=run.rng.choice([1, 2, 63, 64]), obs=obs))
            pl.append(dict(op="Link", r=h, q=run.rng.choice(watch), k=0, obs=obs))
        gen.append(pl)
    return plans, gen, st


def check(run):
    lp, lg, lst = list_plans(run)
    rp, rg, rst = ring_plans(run)
    lsegs = execute(run, "lists", lp + lg)
    rsegs = execute(run, "rings", rp + rg)
    if len(lsegs) != len(lp + lg) or len(rsegs) != len(rp + rg):
        raise Inconclusive("driver returned a wrong number of segments")
    conf = dict(lists=conformance(lp, lsegs[:len(lp)], ["fret", "x"]), rings=conformance(rp, rsegs[:len(rp)], ["fret", "x"]))
    validate(run, "lists", "LockstepAbsTrace", {}, lsegs, CLAUSES, plans=[dict(comp="lists", plan=p) for p in lp + lg])
    validate(run, "lists", "LockstepAbsTrace", {}, rsegs, CLAUSES, plans=[dict(comp="rings", plan=p) for p in rp + rg])
    run.cov.update(tour=dict(lists=lst, rings=rst), conformance=conf,
                   exhaustive=lst["edges_covered"] == lst["edges_total"] and rst["edges_covered"] == rst["edges_total"],
                   distinct_nontrivial=distinct_count(lsegs + rsegs, lambda s: len(s) > 2),
                   rule="tour paths covering every edge of the TLC graphs of LinkedList.tla (every call with every combination of handles: "
                        "live here, live in the other list, removed, element as its own mark, list pushed onto itself) and Ring.tla (every "
                        "pair of handles incl. nil and zero-value rings, counts -2..%d), executed on fork and standard library in lock step; plus "
                        "seeded longer sequences incl. Init on non-empty lists, NewRing(n<=0), counts -9..12" % (rst.get("nodes", 0) and 7))
    run.cov["samples"] = [[{k: v for k, v in e.items() if k in ("op", "l", "e", "m", "fret", "gret")} for e in lsegs[5][:8]],
                          [{k: v for k, v in e.items() if k in ("op", "r", "q", "k", "fret", "gret")} for e in rsegs[5][:8]]]
    run.assumptions += ["element value type int", "nil element arguments (documented as forbidden) and Do callbacks that mutate the ring are not driven",
                        "container/list and container/ring of the installed Go toolchain are the reference"]
    def reexec(rej):
        return execute(run, rej["plan"]["comp"], [rej["plan"]["plan"]])[0]
    return finish(run, reexec=reexec)


def replay(run, rp):
    pl = rp["plan"]
    segs = execute(run, pl["comp"], [pl["plan"]])
    validate(run, "lists", "LockstepAbsTrace", {}, segs, CLAUSES, plans=[pl])
    return finish(run, reexec=lambda rej: execute(run, rej["plan"]["comp"], [rej["plan"]["plan"]])[0])
