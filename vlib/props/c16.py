"""C16 - Queue is FIFO and Stack is LIFO (DESIGN.md section 7-C16)."""
from .. import core
from ..core import *

CLAUSES = ["I_Ret", "I_Len", "I_PeekAfter", "I_NoPanic"]


def plans_for(run, kind, vals, maxlen):
    mc = model_check(run, "queue", "Queue",
                     dict(Vals=tla_set(vals), MaxLen=maxlen, Kind='"%s"' % kind),
                     invariants=["Refines"], properties=["FifoLifo"], edges=True, label=kind)
    paths, st = tour(mc["edges"], [[]], run.rng, max_len=30)
    st["kind"] = kind
    plans = []
    for p in paths:
        plans.append([dict(op="Reset", kind=kind)] + [e["op"] for e in p])
    return plans, st


def execute(run, plans):
    return run_plans(run, "queue", plans)


def check(run):
    vals, maxlen = ([1, 2, 3], 4) if run.quick() else ([1, 2, 3, 4], 6)
    plans, tours = [], []
    for kind in ("queue", "stack"):
        p, st = plans_for(run, kind, vals, maxlen)
        plans += p
        tours.append(st)
    # beyond the exhaustive bounds: seeded long interleavings (drain-to-empty and refill included)
    n = 20 if run.quick() else 200
    for i in range(n):
        kind = ("queue", "stack")[i % 2]
        ins, rem = ("Enqueue", "Dequeue") if kind == "queue" else ("Push", "Pop")
        p = [dict(op="Reset", kind=kind)]
        bias = run.rng.choice([0.3, 0.5, 0.7])
        for j in range(run.rng.randint(20, 120)):
            r = run.rng.random()
            if r < bias:
                p.append(dict(op=ins, arg=run.rng.randint(1, 99)))
            elif r < 0.9:
                p.append(dict(op=rem, arg=0))
            else:
                p.append(dict(op="Peek", arg=0))
        plans.append(p)
    # sawtooth: grow past the usual resize thresholds, drain below a quarter / to empty, refill
    for kind in ("queue", "stack"):
        ins, rem = ("Enqueue", "Dequeue") if kind == "queue" else ("Push", "Pop")
        for peak in ((70, 300, 1100) if run.quick() else (70, 130, 300, 1100, 5000)):
            p = [dict(op="Reset", kind=kind)]
            v = 0
            for target in (peak, peak // 5, peak // 2, 0, 5, 0):
                cur = sum(1 for c in p if c["op"] == ins) - sum(1 for c in p if c["op"] == rem)
                while cur < target:
                    v += 1
                    p.append(dict(op=ins, arg=v))
                    cur += 1
                while cur > target:
                    p.append(dict(op=rem, arg=0))
                    cur -= 1
                p.append(dict(op="Peek", arg=0))
            p += [dict(op=rem, arg=0), dict(op="Peek", arg=0)]
            plans.append(p)
    # fill f, take t, fill again past the next growth, drain: a buffer that slides, wraps or grows with a gap at its front
    for kind in ("queue", "stack"):
        ins, rem = ("Enqueue", "Dequeue") if kind == "queue" else ("Push", "Pop")
        for f in ((16, 17, 32, 33, 40, 65) if run.quick() else (8, 9, 16, 17, 20, 32, 33, 40, 64, 65, 128, 129, 513)):
            for t in sorted({f // 4, f // 4 + 1, f // 3, f // 2 - 1, f // 2, f - 1}):
                for g in (f - t + 1, f, 2 * f):
                    p = [dict(op="Reset", kind=kind)] + [dict(op=ins, arg=i + 1) for i in range(f)] + [dict(op=rem, arg=0)] * t
                    p += [dict(op=ins, arg=f + i + 1) for i in range(g)] + [dict(op="Peek", arg=0)] + [dict(op=rem, arg=0)] * (f - t + g + 1)
                    plans.append(p)
    # other element types: size 0 (struct{}: all values equal, written 0), 200 bytes, strings with the empty string
    for ty in ("empty", "big", "string"):
        for kind in ("queue", "stack"):
            ins, rem = ("Enqueue", "Dequeue") if kind == "queue" else ("Push", "Pop")
            for rep in range(3 if run.quick() else 12):
                p = [dict(op="Reset", kind=kind, ty=ty)]
                vals = (lambda: 0) if ty == "empty" else (lambda: run.rng.randint(0, 9))
                for j in range(run.rng.randint(5, 80)):
                    r = run.rng.random()
                    p.append(dict(op=ins, arg=vals()) if r < 0.55 else dict(op=rem, arg=0) if r < 0.9 else dict(op="Peek", arg=0))
                plans.append([p[0], dict(op=rem, arg=0), dict(op="Peek", arg=0)] + p[1:])
    # "an empty container stays empty and usable", at every fill count (block / chunk boundaries): fill to n, drain to empty, probe the
    # empty container with either call, then use it again; per-n fresh containers and one container that goes through all n in a row
    top = 140 if run.quick() else 600
    for kind in ("queue", "stack"):
        ins, rem = ("Enqueue", "Dequeue") if kind == "queue" else ("Push", "Pop")
        def cycle(n, v0, first):
            c = [dict(op=ins, arg=v0 + i) for i in range(n)] + [dict(op=rem, arg=0)] * n
            probes = [dict(op=rem, arg=0), dict(op="Peek", arg=0)]
            c += probes if first else probes[::-1]
            return c + [dict(op=ins, arg=v0 + n), dict(op="Peek", arg=0), dict(op=ins, arg=v0 + n + 1), dict(op=rem, arg=0), dict(op=rem, arg=0), dict(op=rem, arg=0)]
        chain = [dict(op="Reset", kind=kind)]
        for n in range(1, top + 1):
            if n <= 70 or n % 8 in (0, 1) or n % 10 == 0:
                plans.append([dict(op="Reset", kind=kind)] + cycle(n, 1000, n % 2 == 0))
            if n <= 40:
                chain += cycle(n, 100 * n, n % 2 == 1)
        plans.append(chain)
    segs = execute(run, plans)
    if len(segs) != len(plans):
        raise Inconclusive("driver returned %d segments for %d plans" % (len(segs), len(plans)))
    plans, segs = drop_crashed(plans, segs)
    conf = conformance(plans, segs, ["ret", "ok"])
    validate(run, "queue", "QueueAbsTrace", {}, segs, CLAUSES, plans=plans)
    run.cov.update(tour=tours, conformance=conf, exhaustive=all(t["edges_covered"] == t["edges_total"] for t in tours),
                   distinct_nontrivial=distinct_count(segs, lambda s: len(s) > 2),
                   rule="segments = tour paths over the TLC state graph of Queue.tla (every edge once) plus seeded "
                        "long interleavings, saw-tooth fills to 1100 / 5000, and fill-n / drain / probe-empty / reuse cycles for n up to 140 / 600; "
                        "non-trivial = contains at least two calls; distinct by full recorded trace")
    run.cov["samples"] = [segs[0][:8], segs[-1][:8]]
    run.assumptions += ["element type int only", "pointer-level list behaviour is C06's model"]
    return finish(run, reexec=lambda rej: execute(run, [rej["plan"]])[0])


def replay(run, rp):
    segs = [sg for sg in execute(run, [rp["plan"]]) if sg is not None]
    validate(run, "queue", "QueueAbsTrace", {}, segs, CLAUSES, plans=[rp["plan"]])
    return finish(run, reexec=lambda rej: execute(run, [rej["plan"]])[0])
