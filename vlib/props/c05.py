"""C05 - sync2.Set is an atomic set under concurrent use (DESIGN.md section 7-C05)."""
import itertools
from ..core import *
from ..syncmap_common import *
from .c04 import mc_consts, MC_INV

KEYS = [1, 2]
SETKINDS = '{"Load","LoadOrStore","LoadAndDelete","Range"}'   # Has, Add, Remove, Len/Slice/Range as the map calls they are


def call(op, k=0, s=()):
    return dict(op=op, k=k, v=0, s=list(s))


def program(setup, progs, mode, n=0, seed=1, schedule=None, keys=KEYS, preempt=0):
    return dict(setup=setup, progs=progs, mode=mode, n=n, seed=seed, fine=0, schedule=schedule or [], keys=keys, preempt=preempt)


def check(run):
    q = run.quick()
    # design level: the map calls the set wrappers consist of, deeper than C04's bounds because fewer call kinds
    model_check(run, "syncmap", "SyncMap", mc_consts([1, 2], 1, 3, kinds=SETKINDS), invariants=MC_INV, label="set calls: 2x1, set-up <= 3")
    if not q:
        model_check(run, "syncmap", "SyncMap", mc_consts([1, 2], 2, 3, maxe=12, kinds=SETKINDS), invariants=MC_INV, label="set calls: 2x2, set-up <= 3", timeout=3000)
        model_check(run, "syncmap", "SyncMap", mc_consts([1, 2, 3], 1, 3, maxe=12, kinds=SETKINDS), invariants=MC_INV, label="set calls: 3x1, set-up <= 3", timeout=3000)
    single = [call(op, k) for op in ("Add", "Remove", "Has") for k in KEYS] + [call("Len")]
    multi = [call("AddSet", s=s) for s in ([1], [1, 2])] + [call("RemoveSet", s=s) for s in ([2], [1, 2])]
    ops = single + multi
    # set-up prefixes: every sequence of Add/Remove/Has/Len up to length L is run once (fine trace), grouped by the internal layout
    # (read / dirty / expunged entries, amended flag, miss counter) it builds; one shortest prefix per layout is used as set-up
    L = 3 if q else 4
    seqs = [list(s) for n in range(0, L + 1) for s in itertools.product(single, repeat=n)]
    _, fines = run_programs(run, "syncset", [program(s, [], "schedule") | dict(fine=1) for s in seqs])
    layouts = {}
    lkey = lambda last: json.dumps([last["r"], last["d"], last["am"], last["dn"], last["ms"]])
    for sq, f in zip(seqs, fines):
        if lkey(f[-1]) not in layouts or len(sq) < len(layouts[lkey(f[-1])]):
            layouts[lkey(f[-1])] = sq
    # closed under one more call, breadth first (an expunged entry needs four calls, longer histories reach nothing new after a while)
    frontier, depth = [sq for sq in layouts.values() if len(sq) == L], L
    while frontier and depth < 9:
        depth += 1
        ext = [sq + [o] for sq in frontier for o in single]
        _, fx = run_programs(run, "syncset", [program(sq, [], "schedule") | dict(fine=1) for sq in ext])
        frontier = []
        for sq, f in zip(ext, fx):
            if lkey(f[-1]) not in layouts:
                layouts[lkey(f[-1])] = sq
                frontier.append(sq)
    setups = sorted(layouts.values(), key=lambda sq: (len(sq), json.dumps(sq)))
    conc = []
    pairs = [(a, b) for a in ops for b in ops]
    same = [(a, b) for a in single for b in single if a["k"] == b["k"] or not a["k"] or not b["k"]]     # same value (or Len): the races of one entry
    for s in setups:
        ps = pairs if not q else same + run.rng.sample(pairs, 10)
        for a, b in ps:
            conc.append(program(s, [[a], [b]], "dfs", n=300, preempt=2 if q else 3))
    rnd = []
    for i in range(40 if q else 600):     # 3..8 goroutines over 2-3 values: seeded random schedules
        nt = run.rng.choice([3, 4, 8])
        ks = [1, 2, 3]
        allops = [call(op, k) for op in ("Add", "Remove", "Has") for k in ks] + [call("Len"), call("AddSet", s=[1, 2]), call("RemoveSet", s=[2, 3]),
                                                                                     call("AddSet", s=[3]), call("RemoveSet", s=[1])]
        p = [[run.rng.choice(allops) for _ in range(run.rng.randint(1, 2) if nt < 8 else 1)] for _ in range(nt)]
        rnd.append(program([run.rng.choice(allops) for _ in range(run.rng.randint(0, 3))], p, "random", n=25 if q else 60,
                           seed=run.seed * 1000 + i, keys=ks))
    # one goroutine, a hundred values: histories through promotions, expunged entries and dirty-only values of a LARGE set (size-
    # dependent shortcuts), every value looked up at the end
    bigp = []
    for i in range(6 if q else 60):
        N = run.rng.choice([70, 80, 100])
        ks = list(range(1, N + 1))
        h = [call("Add", k) for k in ks[: N - 12]] + [call("Len")]
        gone = run.rng.sample(ks[: N - 12], run.rng.randint(1, 8))
        h += [call("Remove", k) for k in gone]                       # cleared entries in the read map
        fresh = ks[N - 12: N - 12 + run.rng.randint(1, 8)]
        h += [call("Add", k) for k in fresh]                          # a new dirty map: cleared entries are expunged
        h += [call("Remove", k) for k in run.rng.sample(fresh, run.rng.randint(0, len(fresh)))]
        h += [call("Has", k) for k in run.rng.sample(ks, 10)] + [call("Remove", run.rng.choice(ks)), call("Add", run.rng.choice(gone)), call("Len")]
        for j in range(run.rng.randint(0, 30)):
            h.append(call(run.rng.choice(["Add", "Remove", "Has", "Remove", "Add"]), run.rng.choice(ks)) if run.rng.random() < 0.9 else call("Len"))
        bigp.append(program(h, [], "schedule", keys=ks))
    # ... and systematically: g expunged entries in the read map, f values that live in the dirty map only, removed one by one with
    # every remaining one looked up after each removal (every relation between the two counts occurs)
    for N in ((70,) if q else (64, 70, 130)):
        for g in (1, 2, 3):
            for f in (g, g + 1, g + 3):
                ks = list(range(1, N + f + 1))
                h = [call("Add", k) for k in ks[:N]] + [call("Len")] + [call("Remove", k) for k in ks[:g]]
                fresh = ks[N:N + f]
                h += [call("Add", k) for k in fresh]
                for i, k in enumerate(fresh):
                    h += [call("Remove", k)] + [call("Has", x) for x in fresh[i:]] + [call("Has", ks[g]), call("Has", ks[0])]
                    if i == f - g:
                        h += [call("Remove", fresh[-1]), call("Add", fresh[-1])]
                bigp.append(program(h, [], "schedule", keys=ks))
    hb, _ = run_programs(run, "syncset", bigp)
    bsegs, bsrcs = history_segments(hb)
    validate(run, "syncmap", "SetAbsTrace", dict(NK=140, NT=8), bsegs, [], plans=replay_plans(bsrcs), label="large sets")
    h1, _ = run_programs(run, "syncset", conc)
    h2, _ = run_programs(run, "syncset", rnd)
    _, races = run_race(run, "syncset-stress", [dict(threads=8, ops=150, keys=3, seed=run.seed, rounds=5 if q else 50)])
    for rp in races:
        race_rejection(run, "syncset-stress", rp)
    # free-running rounds (no hooks needed): stable members, never-added values, churn on a few other values
    stab = run_driver(run, "syncset-stable", [dict(rounds=(300 if q else 5000), stable=ns, churnvals=cv, churners=ch, observers=2, ops=300, seed=run.seed)
                                              for ns, cv, ch in ((1, 1, 2), (1, 2, 3), (3, 2, 4), (0, 1, 2), (8, 4, 6))])
    ssegs = [[dict(ev="reset"), e] for e in stab]
    validate(run, "syncmap", "SetAbsTrace", dict(NK=3, NT=8), ssegs, [], plans=None, label="stable members under churn")
    for r in run.rejections:
        r["fact"] = True
    allh = h1 + h2
    segs, srcs = history_segments(allh)
    validate(run, "syncmap", "SetAbsTrace", dict(NK=3, NT=8), segs, [], plans=replay_plans(srcs), label="history")
    for r in run.rejections:
        r["fact"] = True
    run.cov.update(layouts=len(setups), sequential_sequences=len(seqs), dfs_programs=len(conc), random_programs=len(rnd), executions=run.cov.get("executions_total", 0),
                   distinct_histories=len(segs), deadlocks=sum(1 for h in allh if h["deadlock"]), exhaustive=False,
                   distinct_nontrivial=len(segs),
                   rule="executions = every hook-level schedule with <= 2 (thorough 3) preemptions of 2 goroutines x 1 set call "
                        "(Add/Remove/Has/Len/AddSet/RemoveSet over 2 values) from every distinct internal layout reachable by call sequences (all of <= %d calls, then closed breadth first), plus seeded random schedules "
                        "of 3, 4 and 8 goroutines x 1-2 calls over 3 values; every history ends with a quiescent Has/Len/Slice read-back; "
                        "distinct_nontrivial = distinct histories validated by TLC" % L)
    run.cov["samples"] = [segs[len(segs) // 2][:14]]
    run.assumptions += ["value type int", "argument sets of AddSet/RemoveSet are map-backed and not mutated concurrently",
                        "data-race clause decided by the Go race detector (stress stage)"]
    return finish(run)


def replay(run, rp):
    if not rp.get("plan") or "progs" not in rp["plan"]:
        return check(run)
    hists, _ = run_programs(run, "syncset", [rp["plan"]])
    segs, srcs = history_segments(hists)
    validate(run, "syncmap", "SetAbsTrace", dict(NK=3, NT=8), segs, [], plans=replay_plans(srcs), label="history")
    for r in run.rejections:
        r["fact"] = True
    run.cov.update(distinct_nontrivial=len(segs), rule="replay of one stored program and schedule")
    run.cov["samples"] = [segs[0][:12]] if segs else []
    return finish(run)
