"""C09 - keyed mutexes: per-key mutual exclusion and cross-key independence (DESIGN.md section 7-C09)."""
import itertools
from ..core import *
from ..syncmap_common import *
from .c04 import mc_consts, MC_INV

KL_INV = ["Exclusion", "Independence", "TryNeverBlocks"]


def c(op, k=0, **kw):
    d = dict(op=op, k=k, v=0)
    d.update(kw)
    return d


def program(setup, progs, mode, n=0, seed=1, schedule=None, preempt=0):
    return dict(setup=setup, progs=progs, mode=mode, n=n, seed=seed, fine=0, schedule=schedule or [], keys=[1, 2], preempt=preempt)


# critical sections: (acquire, release) per kind; the Try kinds release only if they got the lock
CS = {"L": ("Lock", "Unlock"), "T": ("TryLock", "UnlockIf"), "W": ("WLock", "WUnlock"), "TW": ("TryWLock", "WUnlockIf"),
      "R": ("RLock", "RUnlock"), "TR": ("TryRLock", "RUnlockIf")}
MUTEX, RW = ["L", "T"], ["W", "TW", "R", "TR"]


def section(kind, k):
    a, r = CS[kind]
    return [c(a, k), c(r, k)]


def free_scenarios(run):
    q = run.quick()
    out = []
    def st(t, op, k):
        return dict(t=t, op=op, k=k)
    for kind, L, T, U, C, R, TR, RU in (("m", "Lock", "TryLock", "Unlock", "ClearKey", "Lock", "TryLock", "Unlock"),
                                      ("rw", "WLock", "TryWLock", "WUnlock", "WClearKey", "RLock", "TryRLock", "RUnlock")):
        # a holder of key 1, a waiter on key 1, a ClearKey of the idle key 3, then traffic on key 2 (also by the holder: nested keys)
        for acq, tr, rel in ((L, T, U), (R, TR, RU)):
            for hold, hrel in ((L, U),) if kind == "m" else ((L, U), (R, RU)):
                waiter = L     # a waiter must conflict with the holder: a writer
                out.append(dict(kind=kind, steps=[st(1, hold, 1), st(2, waiter, 1), st(3, C, 3), st(4, tr, 2), st(4, rel, 2), st(4, acq, 2), st(4, rel, 2),
                                                  st(1, acq, 2), st(1, rel, 2), st(3, C, 2), st(3, tr, 3), st(3, rel, 3), st(1, hrel, 1)]))
                out.append(dict(kind=kind, steps=[st(1, hold, 1), st(2, waiter, 1), st(3, waiter, 1), st(4, C, 2), st(4, acq, 2), st(4, tr, 3), st(4, rel, 3),
                                                  st(4, rel, 2), st(1, hrel, 1)]))
        # waiters of different keys at the same time; releases in both orders
        out.append(dict(kind=kind, steps=[st(1, L, 1), st(2, L, 2), st(3, L, 1), st(4, L, 2), st(1, T, 3), st(1, U, 3), st(2, U, 2), st(1, U, 1)]))
        out.append(dict(kind=kind, steps=[st(1, L, 1), st(2, L, 2), st(3, L, 1), st(4, L, 2), st(2, C, 3), st(1, U, 1), st(2, U, 2)]))
    # the same after thousands of other keys have been used (whatever a keyed mutex keeps per key must not run out or be shared)
    for sc in list(out)[:: (3 if q else 1)]:
        out.append(dict(sc, warm=(5000 if q else 20000)))
    # a large map of keys, idle keys cleared while other keys are held: ClearKey of an idle key must not give a held key a new mutex
    for kind, L, T, U, C in (("m", "Lock", "TryLock", "Unlock", "ClearKey"), ("rw", "WLock", "TryWLock", "WUnlock", "WClearKey")):
        for warm in (70, 130):
            out.append(dict(kind=kind, warm=warm, warmclear=True, steps=[st(1, L, 1), st(2, L, 2), st(2, U, 2), st(3, C, 2), st(4, T, 1), st(4, T, 3),
                                                                          st(4, U, 3), st(3, C, 3), st(4, T, 1), st(2, T, 1), st(1, U, 1)]))
            out.append(dict(kind=kind, warm=warm, warmclear=True, steps=[st(1, L, 1), st(2, L, 2), st(3, L, 3), st(2, U, 2), st(2, C, 2), st(4, T, 1), st(4, T, 3),
                                                                          st(3, U, 3), st(3, C, 3), st(4, T, 1), st(1, U, 1), st(4, T, 1)]))
    for i in range(60 if q else 1500):
        out.append(dict(kind=("m" if i % 2 else "rw"), steps=[dict(t=run.rng.randint(1, 4), r=run.rng.randint(0, 9999)) for _ in range(run.rng.randint(8, 30))]))
    return out


def check(run):
    q = run.quick()
    # design level
    kl = dict(Threads=tla_set([1, 2]), Keys=tla_set([1, 2]), Kinds='{"lock","try","rlock","tryr"}', Racy="FALSE", MaxObj=3, ClearMode='"quiet"', WriterPref="TRUE", Nest="TRUE")
    model_check(run, "keyed", "KeyedLock", kl, invariants=KL_INV, label="2 goroutines, 2 keys")
    bad = model_check(run, "keyed", "KeyedLock", dict(kl, Racy="TRUE"), invariants=["Exclusion"], expect_violation=True, label="racy lookup")
    if not bad.get("violated"):
        raise Inconclusive("KeyedLock.tla: the check-then-act lookup variant should violate Exclusion but TLC found nothing (vacuous model?)")
    run.notes.append("KeyedLock.tla with Racy=TRUE (Load-then-Store lookup) violates Exclusion as expected: %s" % bad["violated"])
    # spec growth beyond the property: ClearKey while the key is held is a hazard of the API (two holders after LockKey; ClearKey; LockKey)
    haz = model_check(run, "keyed", "KeyedLock", dict(kl, ClearMode='"any"'), invariants=["Exclusion"], expect_violation=True, label="ClearKey while held (hazard)")
    run.notes.append("spec note (not a property): ClearKey while a key is held breaks per-key exclusion in the model: %s" % (haz.get("violated") or "NOT REPRODUCED"))
    # liveness under fairness (holders release, mutex objects starvation-free): every acquisition returns; needs writer preference
    lv = dict(kl, Threads=tla_set([1, 2, 3]), Keys=tla_set([1] if q else [1, 2]), Nest="FALSE", ClearMode='"never"', MaxObj=2)
    model_check(run, "keyed", "KeyedLock", lv, properties=["EveryAcquisitionReturns"], spec="LiveSpec", label="liveness, 3 goroutines")
    starve = model_check(run, "keyed", "KeyedLock", dict(lv, Keys=tla_set([1]), WriterPref="FALSE"), properties=["EveryAcquisitionReturns"], spec="LiveSpec",
                         expect_violation=True, label="liveness without writer preference")
    run.notes.append("KeyedLock.tla without writer preference: readers starve a writer, EveryAcquisitionReturns %s"
                     % ("violated as expected" if starve.get("violated") else "NOT violated (model too weak?)"))
    if not starve.get("violated"):
        raise Inconclusive("KeyedLock.tla: without writer preference two alternating readers should starve a writer")
    if not q:
        model_check(run, "keyed", "KeyedLock", dict(kl, Threads=tla_set([1, 2, 3]), MaxObj=4), invariants=KL_INV, label="3 goroutines, 2 keys")
    # the lookup the keyed mutexes rely on: LoadOrStore racing LoadOrStore/Delete on sync2.Map (C04's model, restricted call kinds)
    model_check(run, "syncmap", "SyncMap", mc_consts([1, 2], 2, 1, maxe=10, kinds='{"LoadOrStore","Delete"}'), invariants=MC_INV,
                label="LoadOrStore/Delete: 2x2, set-up <= 1")
    progs = []
    kinds2 = [(a, b) for fam in (MUTEX, RW) for a in fam for b in fam]
    # (b) independence: T1 holds key 1 until T2 has finished a whole critical section on key 2 (and vice versa for Try)
    for a, b in kinds2:
        acq, rel = CS[a]
        progs.append(program([], [[c(acq, 1), c("Wait", wt=2, wn=2), c(rel, 1)], section(b, 2)], "dfs", n=300, preempt=2))
    # (c) Try never blocks and fails while the key is held incompatibly: T1 holds key 1 until T2's Try on key 1 has returned
    for a, b in (("L", "T"), ("W", "TW"), ("W", "TR"), ("R", "TW"), ("R", "TR")):
        acq, rel = CS[a]
        progs.append(program([], [[c(acq, 1), c("Wait", wt=2, wn=1), c(rel, 1)], section(b, 1)], "dfs", n=300, preempt=2))
    # (a) same key, fresh (first simultaneous use of a never-seen key) and already-seen
    for a, b in kinds2:
        for setup in ([], section(a, 1)):
            progs.append(program(setup, [section(a, 1), section(b, 1)], "dfs", n=500, preempt=2 if q else 3))
    # (e) two NEVER-SEEN keys used for the first time at the same moment, after some other key has a history (shared spare objects)
    for a, b in kinds2:
        for setup in (section(a, 1), section(a, 1) + section(a, 1)):
            progs.append(program(setup, [section(a, 2), section(b, 3)], "dfs", n=400, preempt=2 if q else 3))
            acq, rel = CS[a]
            progs.append(program(setup, [[c(acq, 2), c("Wait", wt=2, wn=2), c(rel, 2)], section(b, 3)], "dfs", n=300, preempt=2))
    # (f) ClearKey in quiescent states: afterwards the key must behave like any other key (one mutex for everybody, again)
    for fam, clr in ((MUTEX, "ClearKey"), (RW, "WClearKey")):
        for a in fam:
            for b in fam:
                acq, rel = CS[a]
                setup = section(a, 1) + [c(clr, 1)]
                progs.append(program(setup, [[c(acq, 1), c("Wait", wt=2, wn=2), c(rel, 1)], section(b, 2) + section(b, 1)], "dfs", n=300, preempt=2))
                if b.startswith("T"):     # the other goroutine only TRIES the held key (a blocking acquisition would wait for ever: by design)
                    progs.append(program(setup + section(a, 1) + section(a, 2), [[c(acq, 1), c("Wait", wt=2, wn=2), c(rel, 1)], section(b, 1)],
                                         "dfs", n=300, preempt=2))
                progs.append(program(section(a, 1) + section(a, 2) + [c(clr, 1)] + section(a, 1) + section(a, 2),
                                     [section(a, 1), section(b, 1)], "dfs", n=400, preempt=2))
    # (h) first simultaneous use of a key after a quiescent ClearKey, while ANOTHER key is held by a third goroutine: acquiring the
    #     never-seen key 2 rebuilds the table's dirty map and expunges the cleared key's entry, so both users of key 1 go through the
    #     revival of an expunged entry (one of them under the table's lock, the other lock-free); T2 only tries, T3 holds key 1 until
    #     T2's try has returned, T1 holds key 2 throughout
    for fam, clr in ((MUTEX, "ClearKey"), (RW, "WClearKey")):
        for a in fam:
            if a.startswith("T"):
                continue
            for b in fam:
                if not b.startswith("T"):
                    continue
                for h in fam:
                    if h.startswith("T"):
                        continue
                    acq, rel = CS[a]
                    hacq, hrel = CS[h]
                    setup = section(a, 1) + [c(clr, 1)]
                    progs.append(program(setup, [[c(hacq, 2), c("Wait", wt=2, wn=2), c("Wait", wt=3, wn=3), c(hrel, 2)], section(b, 1),
                                                 [c(acq, 1), c("Wait", wt=2, wn=1), c(rel, 1)]], "dfs", n=400, preempt=2))
    # (d) three goroutines, two keys, seeded random schedules
    rnd = []
    for i in range(30 if q else 500):
        fam = MUTEX if i % 2 else RW
        p = [section(run.rng.choice(fam), run.rng.choice([1, 2])) + (section(run.rng.choice(fam), run.rng.choice([1, 2])) if run.rng.random() < 0.5 else [])
             for _ in range(run.rng.choice([3, 4]))]
        rnd.append(program([], p, "random", n=20 if q else 60, seed=run.seed * 1000 + i))
    # (g) free-running timelines: goroutines really queue on the locks (the controlled scheduler never lets one enter a Lock that waits)
    free = free_scenarios(run)
    fsegs, todo, guard = [], list(free), 0
    while todo and guard < 6:
        guard += 1
        fevs, rc, err = run_driver(run, "keyedfree", todo, allow_fail=True, timeout=1500)
        cur = split_segments(fevs, reset_key="ev", reset_val="reset")
        if rc == 0:
            fsegs += cur
            break
        msg = next((ln.strip() for ln in err.splitlines() if ln.startswith("fatal error:") or ln.startswith("panic:")), "")
        if not msg or not cur:
            raise Inconclusive("keyedfree driver failed rc=%d: %s ... %s" % (rc, err[:1200], err[-400:]))
        # the process died inside the code under test: the timeline that was running ends with a crash line (no validator action
        # explains it), the remaining timelines are run in a new process
        cur[-1] = cur[-1] + [dict(ev="crash", msg=msg)]
        fsegs += cur
        todo = todo[len(cur):]
    validate(run, "keyed", "KeyedLockAbsTrace", dict(NK=3, NT=4), fsegs, [], plans=free[:len(fsegs)], label="free-running")
    h1, _ = run_programs(run, "keyed", progs)
    h2, _ = run_programs(run, "keyed", rnd)
    allh = h1 + h2
    segs, srcs = history_segments(allh)
    validate(run, "keyed", "KeyedLockAbsTrace", dict(NK=3, NT=4), segs, [], plans=replay_plans(srcs), label="history")
    for r in run.rejections:
        r["fact"] = True
    run.cov.update(free_running_timelines=len(fsegs), free_running_completed=sum(1 for sg in fsegs if any(e.get("ev") == "end" for e in sg)),
                   dfs_programs=len(progs), random_programs=len(rnd), executions=run.cov.get("executions_total", 0),
                   distinct_histories=len(segs), deadlocks=sum(1 for h in allh if h["deadlock"]),
                   free_mode_executions=sum(1 for h in allh if h["free"]), exhaustive=False, distinct_nontrivial=len(segs),
                   rule="executions = every hook-level schedule with <= 2 (thorough 3) preemptions of two critical sections (Lock/TryLock, "
                        "W/R/Try variants of the RW mutex) on the same fresh or already-seen key; gated scenarios in which one goroutine holds "
                        "key 1 until the other has completed a section on key 2 (independence) or a Try on key 1 (Try never blocks); seeded "
                        "random schedules of 3-4 goroutines on 2 keys; distinct_nontrivial = distinct histories validated by TLC")
    run.cov["samples"] = [segs[len(segs) // 3][:12]]
    run.assumptions += ["key type int (the zero key included)", "ClearKey is driven only in quiescent states, as the property says",
                        "the scheduler's view of each mutex object is exact because of the verif hooks in front of every blocking Lock"]
    return finish(run)


def replay(run, rp):
    if not rp.get("plan") or "progs" not in rp["plan"]:
        return check(run)
    hists, _ = run_programs(run, "keyed", [rp["plan"]])
    segs, srcs = history_segments(hists)
    validate(run, "keyed", "KeyedLockAbsTrace", dict(NK=3, NT=4), segs, [], plans=replay_plans(srcs), label="history")
    for r in run.rejections:
        r["fact"] = True
    run.cov.update(distinct_nontrivial=len(segs), rule="replay of one stored program and schedule")
    run.cov["samples"] = [segs[0][:12]] if segs else []
    return finish(run)
