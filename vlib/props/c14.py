"""C14 - functional slice and map helpers equal their reference definitions (DESIGN.md section 7-C14)."""
from ..core import *

CLAUSES = ["I_Panic", "I_Result", "I_Map", "I_InputKept", "I_Fresh"]
FIELDS = ["op", "s", "a", "b", "aux", "fam"]


def execute(run, plans):
    return [[e] for e in run_driver(run, "functional", [c for p in plans for c in p])]


def map_cases(rng, n):
    out = []
    keys, vals = [1, 2, 3], [5, 6, 7]
    import itertools
    maps_ = []
    for r in range(0, 4):
        for ks in itertools.combinations(keys, r):
            for vs in itertools.product(vals, repeat=r):
                maps_.append([x for kv in zip(ks, vs) for x in kv])
    for m in maps_:
        for op in ("MClone", "MClear", "MKeys", "MValues"):
            out.append(dict(op=op, s=[], a=0, b=0, aux=m, fam=""))
        for a in vals + [0]:
            out.append(dict(op="MKeyOf", s=[], a=a, b=0, aux=m, fam=""))
            out.append(dict(op="MContainsValue", s=[], a=a, b=0, aux=m, fam=""))
        for a in keys + [0]:
            out.append(dict(op="MHasKey", s=[], a=a, b=0, aux=m, fam=""))
    return out


def classify(run):
    """Narrow class of the one known finding: Clear on float64 keys left exactly the NaN-keyed entries, nothing else, no panic."""
    for r in run.rejections:
        e = r["segment"][-1] if r["segment"] else {}
        if e.get("op") == "MClear" and e.get("ty") == "float" and r["clause"] == "I_Map" and e.get("panic") == "":
            pairs = lambda f: sorted((f[i], f[i + 1]) for i in range(0, len(f) - 1, 2))
            nan_in = [p for p in pairs(e["aux"]) if p[0] == 0]
            if nan_in and pairs(e["after"]) == nan_in:
                r["cls"] = "only-NaN-keyed-entries-left"


def check(run):
    ml = 3 if run.quick() else 5
    mc = model_check(run, "slices", "Functional", dict(Vals=tla_set([1, 2, 3]), MaxLen=ml), invariants=["LoopsOK", "DefsSane"],
                     edges=True)
    plans = [[{k: e["op"][k] for k in FIELDS + ["x"]}] for e in mc["edges"]]
    plans += [[c] for c in map_cases(run.rng, 0)]
    # beyond the bounds: seeded longer slices over a wider value range
    ops = sorted({p[0]["op"] for p in plans if not p[0]["op"].startswith("M") or p[0]["op"] in ("Map", "MapErr")})
    for i in range(60 if run.quick() else 1500):
        op = run.rng.choice(ops)
        n = run.rng.randint(0, 40)
        s = [run.rng.randint(1, 6) for _ in range(n)]
        c = dict(op=op, s=s, a=run.rng.randint(0, 6), b=42, aux=[run.rng.randint(1, 6) for _ in range(run.rng.randint(0, 3))], fam="")
        if op in ("Fold", "FoldReverse"):
            c["fam"] = run.rng.choice(["rec", "dec"])
            c["aux"] = [7] if c["fam"] == "rec" else [run.rng.randint(0, 5)]
            if c["fam"] == "dec":
                c["s"] = s[:7]   # TLC integers are 32-bit
        elif op == "Map":
            c["fam"] = run.rng.choice(["x10", "neg"])
        elif op in ("ContainsFunc", "DistinctFunc"):
            c["fam"] = run.rng.choice(["eq", "mod2"])
        elif op in ("GroupBy", "CountBy"):
            c["fam"] = run.rng.choice(["mod2", "id", "const"])
        elif op in ("TryGet", "SafeGet", "SafeGetOr"):
            c["a"] = run.rng.randint(-2, n + 1)
        else:
            c["fam"] = run.rng.choice(["eq", "ne", "gt"])
        plans.append([c])
    # nil (not merely empty) inputs, and the comparable helpers on byte and string elements (ids mapped to 0x7e+id resp. "", "a", ...)
    for c in list(plans):
        c0 = c[0]
        if len(c0["s"]) == 0 and c0["op"] not in ("Last",):
            plans.append([dict(c0, nils=True)])
    for c0 in map_cases(run.rng, 0):
        if not c0["aux"]:
            plans.append([dict(c0, nils=True)])
    # stateful callbacks (the answer depends on the number of the call): every helper whose definition asks once per element, in order
    import itertools as _it2
    for n in range(0, 6):
        for sv in ([list(range(1, n + 1)), [3] * n, [2, 1] * (n // 2) + [2] * (n % 2)]):
            for fam in ("oddcall", "first2"):
                for op in ("Filter", "Any", "All", "IndexFunc"):
                    plans.append([dict(op=op, s=sv, a=0, b=0, aux=[], fam=fam)])
            plans.append([dict(op="Map", s=sv, a=0, b=0, aux=[], fam="callno")])
            plans.append([dict(op="GroupBy", s=sv, a=0, b=0, aux=[], fam="callpar")])
            plans.append([dict(op="CountBy", s=sv, a=0, b=0, aux=[], fam="callpar")])
    # a comparison that is not transitive ("differs by at most one"): DistinctFunc keeps a value unless it equals a KEPT value
    for n in range(0, 6):
        for sv in _it2.product([1, 2, 3, 5], repeat=n):
            plans.append([dict(op="DistinctFunc", s=list(sv), a=0, b=0, aux=[], fam="near")])
            plans.append([dict(op="DistinctFunc", s=list(sv), a=0, b=0, aux=[], fam="leq")])
            if n <= 3:
                for a in (0, 2, 4, 6):
                    plans.append([dict(op="ContainsFunc", s=list(sv), a=a, b=0, aux=[], fam="leq")])
            if n <= 3:
                for a in (1, 2, 4):
                    plans.append([dict(op="ContainsFunc", s=list(sv), a=a, b=0, aux=[], fam="near")])
    # the map helpers on float64 keys, NaN included (key id 0; several NaN entries can coexist, with distinct values here)
    for m in ([], [1, 5], [0, 5], [0, 5, 0, 6], [1, 5, 0, 6], [1, 5, 2, 6, 0, 7, 0, 8, 0, 9], [3, 7, 1, 7]):
        for op in ("MClone", "MClear", "MKeys", "MValues"):
            plans.append([dict(op=op, s=[], a=0, b=0, aux=m, fam="", ty="float")])
        for a in (5, 6, 9, 4):
            plans.append([dict(op="MKeyOf", s=[], a=a, b=0, aux=m, fam="", ty="float")])
            plans.append([dict(op="MContainsValue", s=[], a=a, b=0, aux=m, fam="", ty="float")])
        for a in (1, 2, 3):
            plans.append([dict(op="MHasKey", s=[], a=a, b=0, aux=m, fam="", ty="float")])
    import itertools
    for ty in ("byte", "string"):
        for n in range(0, 4):
            for sv in itertools.product([0, 1, 2, 3], repeat=n):
                for aux in ([], [0], [2], [1, 3], [3, 0]):
                    for op in ("Trim", "TrimLeft", "TrimRight", "Except"):
                        plans.append([dict(op=op, s=list(sv), a=0, b=0, aux=aux, fam="", ty=ty)])
                for a in (0, 1, 2, 3):
                    plans.append([dict(op="Index", s=list(sv), a=a, b=0, aux=[], fam="", ty=ty)])
                    plans.append([dict(op="Contains", s=list(sv), a=a, b=0, aux=[], fam="", ty=ty)])
                plans.append([dict(op="Distinct", s=list(sv), a=0, b=0, aux=[], fam="", ty=ty)])
    # many distinct values / keys: growth thresholds (8, 16, 32, 64 ...) of the slices and maps the helpers build internally
    for i in range(40 if run.quick() else 600):
        op = run.rng.choice(["GroupBy", "CountBy", "Distinct", "DistinctFunc", "Filter", "Except", "ExceptSetM", "ExceptSetS", "Map", "Fold", "FoldReverse"])
        nk = run.rng.choice([9, 10, 17, 20, 33, 40, 65, 129, 257] if i % 4 == 0 else [9, 10, 17, 20, 33, 40])
        n = run.rng.randint(nk, 3 * nk)
        s = [run.rng.randint(1, nk) for _ in range(n)]
        c = dict(op=op, s=s, a=run.rng.randint(0, nk), b=42, aux=[run.rng.randint(1, nk) for _ in range(run.rng.randint(0, 12))], fam="")
        if op in ("GroupBy", "CountBy"):
            c["fam"] = run.rng.choice(["id", "id", "mod2"])
        elif op == "DistinctFunc":
            c["fam"] = run.rng.choice(["eq", "mod2"])
        elif op == "Map":
            c["fam"] = run.rng.choice(["x10", "neg"])
        elif op in ("Fold", "FoldReverse"):
            c["fam"], c["aux"] = "rec", [7]
        else:
            c["fam"] = run.rng.choice(["eq", "ne", "gt"])
        plans.append([c])
    segs = execute(run, plans)
    if len(segs) != len(plans):
        raise Inconclusive("driver returned %d events for %d plans" % (len(segs), len(plans)))
    pl2 = [[dict(p[0], **(p[0].get("x") or {}))] for p in plans]
    conf = conformance(pl2, segs, ["rs", "ri", "rb", "rg"])
    validate(run, "slices", "FunctionalAbsTrace", {}, segs, CLAUSES, plans=plans)
    classify(run)
    run.cov.update(conformance=conf, exhaustive=True,
                   distinct_nontrivial=distinct_count(segs, lambda s: len(s[0]["s"]) + len(s[0]["aux"]) > 0),
                   rule="one case per (helper, input slice over {1,2,3} up to length %d, callback-family parameter) cell enumerated by TLC "
                        "from Functional.tla, all maps over 3 keys x 3 values for the map helpers, plus seeded longer inputs; "
                        "non-trivial = non-empty input" % ml)
    run.cov["samples"] = [segs[100][0], segs[-1][0]]
    run.assumptions += ["element/key/value type int", "callbacks are pure functions of their arguments (value-based families), so "
                        "no assumption on evaluation order is made except for MapErr's 'stops at the first error'"]
    return finish(run, reexec=lambda rej: execute(run, [rej["plan"]])[0])


def replay(run, rp):
    segs = execute(run, [rp["plan"]])
    validate(run, "slices", "FunctionalAbsTrace", {}, segs, CLAUSES, plans=[rp["plan"]])
    classify(run)
    return finish(run, reexec=lambda rej: execute(run, [rej["plan"]])[0])
