"""C01 - AVL tree is a sorted multiset under every operation history (DESIGN.md section 7-C01)."""
from .. import avl_common as A


def check(run):
    return A.run_all(run, "C01", A.C01_CLAUSES)


def replay(run, rp):
    return A.replay_one(run, rp, "C01", A.C01_CLAUSES)
