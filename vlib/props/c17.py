"""C17 - Once1/Once2/Once3 run the action exactly once and share its results (DESIGN.md section 7-C17)."""
from ..core import *


def check(run):
    q = run.quick()
    inv = ["AtMostOneRun", "ReturnsShared", "FieldDiscipline"]
    model_check(run, "once", "Once", dict(Callers=tla_set([1, 2, 3] if q else [1, 2, 3, 4]), EarlyRead="FALSE"), invariants=inv, label="wrapper over sync.Once")
    model_check(run, "once", "Once", dict(Callers=tla_set([1, 2, 3]), EarlyRead="FALSE"), properties=["EveryDoReturns"], spec="LiveSpec",
                label="liveness: every Do returns")
    bad = model_check(run, "once", "Once", dict(Callers=tla_set([1, 2]), EarlyRead="TRUE"), invariants=["ReturnsShared"], expect_violation=True,
                      label="fields read before once.Do")
    if not bad.get("violated"):
        raise Inconclusive("Once.tla with EarlyRead=TRUE should violate ReturnsShared")
    run.notes.append("Once.tla with EarlyRead=TRUE violates ReturnsShared as expected")
    if not q:
        # unbounded in the length of the behaviour: an inductive invariant of the design (5 callers), discharged by Apalache in three
        # obligations, with a weakened invariant as negative control
        c5 = ["--cinit=CInit"]
        ok1, _ = apalache(run, "once", "OnceInd", c5 + ["--init=Init", "--inv=IndInv", "--length=0"])
        ok2, _ = apalache(run, "once", "OnceInd", c5 + ["--init=IndInit", "--inv=IndInv", "--length=1"])
        ok3, _ = apalache(run, "once", "OnceInd", c5 + ["--init=IndInit", "--inv=Props", "--length=0"])
        weak, _ = apalache(run, "once", "OnceInd", c5 + ["--init=WeakInit", "--inv=WeakInv", "--length=1"])
        if not (ok1 and ok2 and ok3) or weak:
            raise Inconclusive("OnceInd.tla: inductive invariant obligations Init=>Inv %s, Inv/\\Next=>Inv' %s, Inv=>Props %s; weakened invariant "
                               "inductive (should not be): %s" % (ok1, ok2, ok3, weak))
        run.notes.append("Apalache: IndInv of OnceInd.tla is inductive for 5 callers and implies AtMostOneRun, ReturnsShared, FieldDiscipline "
                         "(behaviours of any length); the weakened invariant is rejected as expected")
    scs = []
    rng_b = range(0, 4) if q else range(0, 5)
    for arity in (1, 2, 3):
        for before in rng_b:
            for during in (range(0, 3) if q else range(0, 4)):
                for after in (0, 1, 2):
                    if before + during + after == 0 or (before + during == 0):
                        if before + during + after == 0:
                            continue
                    if before == 0 and during > 0:
                        continue      # "during" needs somebody running
                    scs.append(dict(arity=arity, before=before, during=during, after=after))
    # the same with result types that are (non-nil) error values: Once1[error], Once2[int, error], Once3[int, int, error]
    for arity in (1, 2, 3):
        for before, during, after in ((1, 0, 2), (2, 1, 1), (1, 2, 2), (3, 0, 1)):
            scs.append(dict(arity=arity, before=before, during=during, after=after, err=True))
    # results that are zero values, nil interfaces included (Once1[error], Once2[int, any], Once3[int, error, any])
    for arity in (1, 2, 3):
        for before, during, after in ((1, 0, 1), (2, 1, 1), (1, 2, 0)):
            scs.append(dict(arity=arity, before=before, during=during, after=after, zero=True))
    # other Once values complete while this one's action is still running and callers wait for it
    for arity in (1, 2, 3):
        for before, during, after in ((1, 1, 0), (1, 3, 1), (2, 2, 0), (3, 0, 1)):
            scs.append(dict(arity=arity, before=before, during=during, after=after, other=True))
    # callers that pass a nil function while / after somebody else's function runs: it must never be called, and they wait and share
    for arity in (1, 2, 3):
        for before, during, after in ((1, 1, 1), (1, 2, 0), (2, 0, 2), (1, 0, 1)):
            scs.append(dict(arity=arity, before=before, during=during, after=after, nilf=True))
    # ungated bursts: the races of the very first Do on a fresh value (windows of a few instructions, so many rounds)
    for arity in (1, 2, 3):
        scs.append(dict(arity=arity, burst=16, rounds=1500 if q else 20000))
        scs.append(dict(arity=arity, burst=4, rounds=1500 if q else 20000))
    for i in range(5 if q else 40):     # many simultaneous callers
        scs.append(dict(arity=run.rng.choice([1, 2, 3]), before=run.rng.randint(5, 9), during=run.rng.randint(0, 4), after=run.rng.randint(0, 3)))
    # under the race detector: the effect written inside the action must be ordered before every caller's read
    evs, rc, err = run_driver(run, "once", scs, race=True, allow_fail=True, timeout=1200)
    if "WARNING: DATA RACE" in err:
        for rp in err.split("WARNING: DATA RACE")[1:3]:
            race_rejection(run, "once", "WARNING: DATA RACE" + rp[:2500])
    elif rc != 0:
        msg = next((ln.strip() for ln in err.splitlines() if ln.startswith(("fatal error:", "panic:", "runtime:"))), "")
        if not msg:
            raise Inconclusive("once driver failed rc=%d: %s" % (rc, err[-1500:]))
        # the process died inside the code under test (e.g. a nil function was called although another caller's function had run)
        crash_rejection(run, "once", msg, None)
    segs = split_segments(evs, reset_key="ev", reset_val="reset")
    validate(run, "once", "OnceAbsTrace", {}, segs, [], plans=[[s] for s in scs for _ in range(s.get("rounds", 1))][:len(segs)])
    parked = [e for s in segs for e in s if e.get("what") == "parked"]
    run.cov.update(scenarios=len(scs), exhaustive=False, distinct_nontrivial=distinct_count(segs, lambda s: len(s) > 4),
                   parked_checks=len(parked), parked_as_expected=sum(1 for e in parked if e["n"] >= e["want"]),
                   rule="scenario = (arity 1-3, callers racing for the Once, callers arriving while the action is gated, callers after completion), "
                        "all combinations up to 3-4 / 2-3 / 2 plus seeded larger groups; the action blocks on a gate until the other callers are "
                        "seen parked inside sync.Once (goroutine states), then is released; run under the race detector")
    run.cov["samples"] = [segs[len(segs) // 2]] if segs else []
    run.assumptions += ["which of several simultaneous callers wins inside sync.Once cannot be chosen from outside; every outcome is validated",
                        "result types int"]
    for r in run.rejections:
        r["fact"] = True
    return finish(run)


def replay(run, rp):
    return check(run)
