"""C11 - Bimap keeps its two directions mutually inverse (DESIGN.md section 7-C11)."""
from ..core import *

CLAUSES = ["I_NoPanic", "I_Inverse", "I_Model", "I_Contains", "I_Len", "I_Range", "I_RangeStop", "I_Probe"]
OPS = ["Add", "RemoveForward", "RemoveReverse", "Clear", "Clone"]


def execute(run, plans):
    return run_plans(run, "bimap", plans)


def check(run):
    nk, nv = (2, 2) if run.quick() else (3, 3)
    mc = model_check(run, "bimap", "Bimap", dict(Keys=tla_set(range(1, nk + 1)), Vals=tla_set(range(11, 11 + nv))),
                     invariants=["Inverse", "Refines", "Bijection"], edges=True)
    z = [0] * nk
    paths, st = tour(mc["edges"], [[z, z]], run.rng, max_len=40)
    reset = dict(op="Reset", n="a", k=0, v=0, nk=nk, nv=nv)
    plans = [[reset] + [e["op"] for e in p] for p in paths]
    # beyond the bounds: seeded histories over 5 keys x 5 values
    for i in range(10 if run.quick() else 150):
        p = [dict(op="Reset", n="a", k=0, v=0, nk=5, nv=5)]
        for j in range(run.rng.randint(10, 60)):
            op = run.rng.choice(OPS + ["Add"] * 4)
            p.append(dict(op=op, n=run.rng.choice("ab"), k=run.rng.randint(1, 5), v=run.rng.randint(11, 15)))
        plans.append(p)
    # grow large, then shrink (map growth / many removals of absent and present entries), 24 keys x 24 values
    for i in range(2 if run.quick() else 20):
        p = [dict(op="Reset", n="a", k=0, v=0, nk=24, nv=24)]
        for j in range(60):
            p.append(dict(op="Add", n="a", k=run.rng.randint(1, 24), v=run.rng.randint(11, 34)))
        p.append(dict(op="Clone", n="a", k=0, v=0))
        for j in range(80):
            op = run.rng.choice(["RemoveForward", "RemoveReverse", "RemoveForward", "RemoveReverse", "Add"])
            p.append(dict(op=op, n=run.rng.choice("ab"), k=run.rng.randint(1, 24), v=run.rng.randint(11, 34)))
        plans.append(p)
    # look-up, change, look-up with nothing else observed in between (Len only)
    import itertools
    trip = []
    K, V = (1, 2), (11, 12)
    looks = [dict(op=o, k=k, v=0) for o in ("GetForward", "ContainsForward") for k in K] + [dict(op=o, k=0, v=v) for o in ("GetReverse", "ContainsReverse") for v in V]
    muts = [dict(op="Add", k=k, v=v) for k in K for v in V] + [dict(op="RemoveForward", k=k, v=0) for k in K] + \
           [dict(op="RemoveReverse", k=0, v=v) for v in V] + [dict(op="Clear", k=0, v=0)]
    contents = [[], [(1, 11)], [(1, 12)], [(2, 11)], [(1, 11), (2, 12)], [(1, 12), (2, 11)]]
    for cont in contents:
        for a in looks:
            for m in muts:
                for b in looks:
                    p = [dict(op="Reset", n="a", k=0, v=0, nk=2, nv=2)] + [dict(op="Add", n="a", k=k, v=v, q=True) for k, v in cont]
                    p += [dict(a, n="a", q=True), dict(m, n="a", q=True), dict(b, n="a", q=True), dict(b, n="a", q=False)]
                    trip.append(p)
    plans += trip if not run.quick() else run.rng.sample(trip, 800)
    # Range whose callback removes a pair / adds a pair (with evictions) at the first pair it is shown
    for cont in ([(1, 11)], [(1, 11), (2, 12)], [(1, 12), (2, 11), (3, 13)], [(1, 11), (2, 12), (3, 13), (4, 14), (5, 15)]):
        nk = 5
        for k in range(1, nk + 1):
            p = [dict(op="Reset", n="a", k=0, v=0, nk=nk, nv=nk)] + [dict(op="Add", n="a", k=a, v=b, q=True) for a, b in cont]
            plans.append(p + [dict(op="RangeDel", n="a", k=k, v=0)])
            for v in (11, 13, 15):
                plans.append(p + [dict(op="RangeAdd", n="a", k=k, v=v)])
    # large bimaps (hundreds of pairs: whatever a map or a Bimap does differently when big), read back in full only at chosen points:
    # fill, clone, clear / drain through every size, refill; both copies observed
    for N in ((129, 140, 300) if run.quick() else (64, 129, 140, 300, 600, 1100)):
        for variant in ("clear", "drain", "drainF", "drainR"):
            p = [dict(op="Reset", n="a", k=0, v=0, nk=N, nv=N)]
            perm = list(range(N))
            run.rng.shuffle(perm)
            for i in range(N):
                p.append(dict(op="Add", n="a", k=i + 1, v=11 + perm[i], q=(i % max(1, N // 3) != 0 and i != N - 1)))
            p.append(dict(op="Clone", n="a", k=0, v=0))
            if variant == "clear":
                p.append(dict(op="Clear", n="a", k=0, v=0))
                p.append(dict(op="Clone", n="a", k=0, v=0))       # a copy taken from the cleared bimap
                p.append(dict(op="Add", n="b", k=5, v=11 + perm[7]))
                p.append(dict(op="Add", n="a", k=3, v=13))
                p.append(dict(op="Clear", n="b", k=0, v=0))
            else:
                for i in range(N):
                    op = {"drain": "RemoveForward" if i % 2 else "RemoveReverse", "drainF": "RemoveForward", "drainR": "RemoveReverse"}[variant]
                    p.append(dict(op=op, n="a", k=i + 1, v=11 + perm[i], q=(i % max(1, N // 4) != 0 and i < N - 2)))
                p.append(dict(op="Add", n="a", k=2, v=12))
                p.append(dict(op="Clear", n="b", k=0, v=0))
                p.append(dict(op="Add", n="b", k=2, v=12))
            plans.append(p)
    segs = execute(run, plans)
    if len(segs) != len(plans):
        raise Inconclusive("driver returned %d segments for %d plans" % (len(segs), len(plans)))
    plans, segs = drop_crashed(plans, segs)
    conf = conformance(plans, segs, ["x"])
    validate(run, "bimap", "BimapAbsTrace", {}, segs, CLAUSES, plans=plans)
    run.cov.update(tour=st, conformance=conf, exhaustive=st["edges_covered"] == st["edges_total"],
                   distinct_nontrivial=distinct_count(segs, lambda s: len(s) > 2),
                   rule="tour paths covering every edge of the TLC state graph of Bimap.tla (all pairs of partial bijections "
                        "x every call on either bimap value incl. Clone) + seeded histories over 5x5 and 24x24 + fill / clone / clear-or-drain / reuse "
                        "histories with 129-300 (thorough 1100) pairs; non-trivial = >= 2 calls")
    run.cov["samples"] = [[{k: v for k, v in e.items() if k != "obs"} for e in segs[0][:8]], segs[-1][1]]
    run.assumptions += ["K = V = int; the universes contain the zero value of K and of V", "Range early stop probed with stop-after-first only"]
    return finish(run, reexec=lambda rej: execute(run, [rej["plan"]])[0])


def replay(run, rp):
    segs = [sg for sg in execute(run, [rp["plan"]]) if sg is not None]
    validate(run, "bimap", "BimapAbsTrace", {}, segs, CLAUSES, plans=[rp["plan"]])
    return finish(run, reexec=lambda rej: execute(run, [rej["plan"]])[0])
