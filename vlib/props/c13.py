"""C13 - Chunk, Windowed and Pairs partition a slice exactly (DESIGN.md section 7-C13)."""
from ..core import *

CLAUSES = ["I_NoPanic", "I_Chunk", "I_Windowed", "I_Pairs", "I_Func", "I_InputKept"]


def execute(run, plans):
    return [[e] for e in run_driver(run, "partition", [c for p in plans for c in p])]


def check(run):
    mn, ms = (10, 12) if run.quick() else (24, 26)
    mc = model_check(run, "slices", "Partition", dict(MaxN=mn, MaxSize=ms), invariants=["DefOK"], edges=True)
    plans = [[dict(op=e["op"]["op"], n=e["op"]["n"], size=e["op"]["size"], res=e["op"]["res"])] for e in mc["edges"]]
    for i in range(30 if run.quick() else 400):
        n = run.rng.choice([0, 1, 2, 3, 31, 32, 33, 64, 100, 127, 255]) if i % 2 else run.rng.randint(0, 300)
        size = run.rng.choice([1, 2, 3, 7, 16, n, n + 1, max(1, n - 1), max(1, n // 2)])
        size = max(1, size)
        plans.append([dict(op=run.rng.choice(["Chunk", "Windowed", "Pairs"]), n=n, size=size,
                           input=[run.rng.randint(0, 9) for _ in range(n)])])
    # sizes at the top of the int range (arithmetic on n + size must not overflow)
    for n in (0, 1, 2, 3, 4, 5, 17):
        for h in (0, 1, 2):
            for op in ("Chunk", "Windowed"):
                plans.append([dict(op=op, n=n, size=1 << 30, huge=h)])
    segs = execute(run, plans)
    if len(segs) != len(plans):
        raise Inconclusive("driver returned %d events for %d plans" % (len(segs), len(plans)))
    conf = conformance(plans, segs, ["res"])
    validate(run, "slices", "PartitionAbsTrace", {}, segs, CLAUSES, plans=plans)
    run.cov.update(conformance=conf, exhaustive=True,
                   distinct_nontrivial=distinct_count(segs, lambda s: s[0]["n"] > 0),
                   rule="one case per (function, n, size) cell enumerated by TLC from Partition.tla for n in 0..%d, size in 1..%d "
                        "(every remainder class, size>n, size=n) + seeded cases up to n=300 with duplicate values; "
                        "non-trivial = non-empty input" % (mn, ms))
    run.cov["samples"] = [segs[5][0], segs[-1][0]]
    run.assumptions += ["element type int", "aliasing of the returned pieces with the input is not constrained by the property"]
    return finish(run, reexec=lambda rej: execute(run, [rej["plan"]])[0])


def replay(run, rp):
    segs = execute(run, [rp["plan"]])
    validate(run, "slices", "PartitionAbsTrace", {}, segs, CLAUSES, plans=[rp["plan"]])
    return finish(run, reexec=lambda rej: execute(run, [rej["plan"]])[0])
