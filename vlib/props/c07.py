"""C07 - slices.Sorted is always sorted and an exact multiset (DESIGN.md section 7-C07)."""
from ..core import *

CLAUSES = ["I_Sorted", "I_Bag", "I_Total", "I_ContainsIndex", "I_Panic", "I_Get", "I_Input", "I_Len", "I_String"]
VALS = {"asc": [1, 2, 3, 4], "desc": [1, 2, 3, 4], "key": [10, 11, 20, 21]}


def execute(run, plans):
    return run_plans(run, "sorted", plans)


def mkplan(mode, ops, ordered=False):
    p = [dict(op="Reset", mode=mode)]
    for o in ops:
        o = dict(o)
        if o["op"] == "New":
            o["ordered"] = ordered
            p.append(o)
            p.append(dict(op="Poke", arg=0))
        else:
            p.append(o)
    return p


def check(run):
    plans, tours = [], []
    for mode in ("asc", "desc", "key"):
        if run.quick():
            vals, maxlen, maxinit = VALS[mode][:3] if mode != "key" else VALS[mode][:3], 4, 3
        else:
            vals, maxlen, maxinit = VALS[mode], 6 if mode != "key" else 5, 4
        mc = model_check(run, "sorted", "Sorted", dict(Vals=tla_set(vals), MaxLen=maxlen, Mode='"%s"' % mode, MaxInit=maxinit),
                         invariants=["IsSorted"], properties=["BagStep"], edges=True, label=mode)
        paths, st = tour(mc["edges"], [[[], False]], run.rng, max_len=30)
        st["mode"] = mode
        tours.append(st)
        for i, p in enumerate(paths):
            plans.append(mkplan(mode, [e["op"] for e in p], ordered=(i % 2 == 0)))
    for i in range(12 if run.quick() else 200):
        mode = ("asc", "desc", "key")[i % 3]
        dom = list(range(1, 9)) if mode != "key" else [10, 11, 12, 20, 21, 30, 31, 32]
        ops = [dict(op="New", arg=0, vals=[run.rng.choice(dom) for _ in range(run.rng.randint(0, 12))])]
        n = len(ops[0]["vals"])
        for j in range(run.rng.randint(10, 50)):
            o = run.rng.choice(["Add", "Add", "Remove", "RemoveAt", "Get", "Index", "Contains"])
            if o in ("RemoveAt", "Get"):
                ops.append(dict(op=o, arg=run.rng.randint(-2, n + 2)))
            else:
                ops.append(dict(op=o, arg=run.rng.choice(dom)))
        plans.append(mkplan(mode, ops, ordered=(i % 2 == 0)))
    # structured inputs to NewSorted (what an adaptive construction special-cases): an ordered head with a short tail, reversed,
    # two runs, all equal, at sizes around the usual thresholds; then look-ups, an Add above the maximum and a Remove
    for mode in ("asc", "desc", "key"):
        for n in ((9, 18, 20, 40) if run.quick() else (9, 12, 13, 18, 20, 33, 40, 65, 130)):
            base = [5 * (i + 1) for i in range(n)] if mode != "key" else [10 * (i + 1) + (i % 3) for i in range(n)]
            if mode == "desc":
                base = base[::-1]
            top, mid, low = max(base) + 40, base[n // 3] + 2, min(base) - 3 if mode != "key" else 1
            shp = [base, base[::-1], [base[0]] * n, base[: n // 2] + base[: n - n // 2]]
            for tail in ([mid, top], [top, mid], [low, mid, top], [top], [mid], [top, top + 5, low]):
                shp.append(base[: n - len(tail)] + tail)
            for sh in shp:
                ops = [dict(op="New", arg=0, vals=sh), dict(op="Index", arg=sh[-1]), dict(op="Contains", arg=sh[0]),
                       dict(op="Add", arg=top + 100), dict(op="Remove", arg=sh[len(sh) // 2]), dict(op="Index", arg=top + 100)]
                plans.append(mkplan(mode, ops, ordered=(mode == "asc" and n % 2 == 0)))
    # NewSorted over hundreds to thousands of values (few distinct values, so that the multiset clause stays cheap to evaluate)
    for mode in ("asc", "desc", "key"):
        for n in ((513, 600, 1038) if run.quick() else (257, 513, 514, 600, 1000, 1038, 1500, 2049, 3000)):
            dom = list(range(1, 30)) if mode != "key" else [k * 10 + t for k in range(1, 12) for t in range(0, 3)]
            vals = [run.rng.choice(dom) for _ in range(n)]
            ops = [dict(op="New", arg=0, vals=vals), dict(op="Index", arg=vals[0]), dict(op="Add", arg=dom[-1]), dict(op="Remove", arg=vals[n // 2])]
            plans.append(mkplan(mode, ops, ordered=(mode == "asc")))
    # look-up, change, look-up again (anything a Sorted might remember between calls must be dropped by the change): every
    # triple over small contents (quick: a seeded sample)
    import itertools as _it
    trip = []
    for mode in ("asc", "desc"):
        dom = [1, 2, 3]
        inits = [list(c) for n in range(0, 4) for c in _it.combinations_with_replacement(dom, n)]
        for init in inits:
            looks = [dict(op=o, arg=v) for o in ("Index", "Contains") for v in dom]
            muts = [dict(op="Add", arg=v) for v in dom] + [dict(op="Remove", arg=v) for v in dom] + [dict(op="RemoveAt", arg=i) for i in range(0, len(init))]
            after = looks + [dict(op="Remove", arg=v) for v in dom] + [dict(op="Add", arg=v) for v in dom]
            for a in looks:
                for m in muts:
                    for b in after:
                        trip.append(mkplan(mode, [dict(op="New", arg=0, vals=init), a, m, b, dict(op="Index", arg=b["arg"])]))
    plans += trip if not run.quick() else run.rng.sample(trip, 1500)
    # grow large then shrink: insertion into spare capacity vs reallocation, removal down to empty
    for mode in ("asc", "desc", "key"):
        dom = list(range(1, 41)) if mode != "key" else [k * 10 + t for k in range(1, 14) for t in range(0, 3)]
        ops = [dict(op="New", arg=0, vals=[run.rng.choice(dom) for _ in range(run.rng.choice([0, 7, 33]))])]
        vals = list(ops[0]["vals"])
        for j in range(90 if run.quick() else 400):
            v = run.rng.choice(dom)
            ops.append(dict(op="Add", arg=v))
            vals.append(v)
        run.rng.shuffle(vals)
        for j, v in enumerate(vals):      # remove everything again (down through every shrink threshold), looking things up on the way
            if j % 3 == 0:
                ops.append(dict(op="Index", arg=v))
            ops.append(dict(op="Remove" if j % 4 else "RemoveAt", arg=v if j % 4 else 0))
        ops += [dict(op="RemoveAt", arg=0)] * 3 + [dict(op="Add", arg=dom[0])]
        plans.append(mkplan(mode, ops, ordered=False))
    segs = execute(run, plans)
    if len(segs) != len(plans):
        raise Inconclusive("driver returned %d segments for %d plans" % (len(segs), len(plans)))
    plans, segs = drop_crashed(plans, segs)
    conf = conformance(plans, segs, ["ret"])
    validate(run, "sorted", "SortedAbsTrace", {}, segs, CLAUSES, plans=plans)
    run.cov.update(tour=tours, conformance=conf, exhaustive=all(t["edges_covered"] == t["edges_total"] for t in tours),
                   distinct_nontrivial=distinct_count(segs, lambda s: len(s) > 3),
                   rule="tour paths covering every edge of the TLC graph of Sorted.tla for three orders (asc, desc, weak key order): "
                        "every initial slice x every Add/Remove/RemoveAt/Get/Index/Contains incl. absent values and out-of-range "
                        "positions; plus seeded histories over 8 values; plus look-up / change / look-up triples over every content of <= 3 of 3 "
                        "values (quick: 1500 sampled); non-trivial = New + >= 1 call")
    run.cov["samples"] = [segs[1][:6], segs[-1][:5]]
    run.assumptions += ["element type int; orders: <, >, and key-only weak order on v/10"]
    return finish(run, reexec=lambda rej: execute(run, [rej["plan"]])[0])


def replay(run, rp):
    segs = [sg for sg in execute(run, [rp["plan"]]) if sg is not None]
    validate(run, "sorted", "SortedAbsTrace", {}, segs, CLAUSES, plans=[rp["plan"]])
    return finish(run, reexec=lambda rej: execute(run, [rej["plan"]])[0])
