"""C19 - channel helpers never lose, duplicate or invent a value (DESIGN.md section 7-C19)."""
from ..core import *

CLAUSES = ["I_NoPanic", "I_NeverBlocks", "I_Queued", "I_QueuedPending", "I_Outcome", "I_SendConserve", "I_RecvConserve", "I_Unlimited", "I_RecvRace", "I_SendRace", "I_CloseRace", "I_SendDeadline"]


def check(run):
    q = run.quick()
    model_check(run, "chans", "ChanHelpers", dict(MaxCap=3 if q else 4, MaxLimit=4 if q else 6),
                invariants=["QueuedOK", "QueuedNeverBlocks", "Conservation", "NoDeadlineNeverFalse"], label="queued cells + timed orders")
    plan = []
    mc, ml = (3, 4) if q else (4, 6)
    for op in ("RecvQueued", "RecvQueuedFull"):
        for cap in range(0, mc + 1):
            for fill in range(0, cap + 1):
                for closed in (False, True):
                    for limit in range(0, ml + 1):
                        plan.append(dict(op=op, cap=cap, fill=fill, closed=closed, limit=limit, pending=0))
        for cap in (8, 12, 20, 40):        # more queued than the limit, limits around growth steps of the result slice
            for limit in ((0, 1, 4, 5, 7, 8, 9, 11, 13, 17, 33, cap - 1, cap, cap + 1) if q else range(0, cap + 2)):
                for fill in (cap, cap - 3):
                    plan.append(dict(op=op, cap=cap, fill=fill, closed=False, limit=limit, pending=0))
                    plan.append(dict(op=op, cap=cap, fill=fill, closed=True, limit=limit, pending=0))
        if op == "RecvQueued":             # "no limit" callers: limits at the top of the int range
            for cap in (1, 4):
                for fill in (0, cap):
                    for h in (0, 1, 2):
                        plan.append(dict(op=op, cap=cap, fill=fill, closed=False, limit=1 << 30, huge=h, pending=0))
        for cap in (0, 1, 2):
            for pending in (1, 2):
                for limit in (0, 1, 2, 4):
                    plan.append(dict(op=op, cap=cap, fill=cap, closed=False, limit=limit, pending=pending))
    timed = []
    for op in ("SendTimeout", "RecvTimeout"):
        for dl in ("zero", "neg", "short", "long"):
            for cap, fill in ((0, 0), (1, 0), (1, 1)):
                for peer in ("none", "ready", "later"):
                    for closed in ((False,) if op == "SendTimeout" else (False, True)):
                        timed.append(dict(op=op, cap=cap, fill=fill, closed=closed, dl=dl, peer=peer, limit=0, pending=0))
    for op in ("SendContext", "RecvContext"):
        for dl in ("never", "pre", "post"):
            for cap, fill in ((0, 0), (1, 0), (1, 1)):
                for peer in ("none", "ready", "later"):
                    for closed in ((False,) if op == "SendContext" else (False, True)):
                        timed.append(dict(op=op, cap=cap, fill=fill, closed=closed, dl=dl, peer=peer, limit=0, pending=0))
    # a closed channel with a peer sender makes no sense (the peer would panic): drop those
    timed = [t for t in timed if not (t["closed"] and t["peer"] != "none")]
    if q:
        slow = [t for t in timed if t["dl"] in ("zero", "neg", "never") and t["peer"] == "none" and not (t["closed"] or (t["op"].startswith("Recv") and t["fill"] > 0) or (t["op"].startswith("Send") and t["fill"] < t["cap"]))]
        fast = [t for t in timed if t not in slow]
        timed = fast + run.rng.sample(slow, min(len(slow), 6))
    # several callers racing for the last queued values / free slots (a single caller never sees these windows)
    race = []
    for rnd in range(60 if q else 600):
        cap = run.rng.choice([1, 2, 4])
        fill = run.rng.randint(0, cap)
        race.append(dict(op="RecvRace", cap=cap, fill=fill, closed=run.rng.random() < 0.5, n=run.rng.choice([2, 4, 8]), limit=0, pending=0))
        race.append(dict(op="SendRace", cap=cap, fill=fill, closed=False, n=run.rng.choice([2, 4, 8]), limit=0, pending=0))
    # the closed-channel races cost no waiting at all: many rounds, because the windows are a few instructions wide
    for rnd in range(6000 if q else 60000):
        cap = run.rng.choice([1, 2, 4])
        race.append(dict(op="RecvRace", cap=cap, fill=run.rng.choice([1, 1, cap]), closed=True, n=8, limit=0, pending=0))
    for rnd in range(300 if q else 3000):       # the close lands from 400us before to 400us after the 3ms deadline
        race.append(dict(op="RecvCloseRace", cap=run.rng.choice([0, 1]), fill=0, closed=False, limit=0, pending=0, offus=run.rng.randint(-400, 400)))
    timed = timed + race
    # run the timed scenarios in parallel driver processes (they sleep), the queued ones in one
    from concurrent.futures import ThreadPoolExecutor
    chunks = [timed[i::12] for i in range(12)]
    with ThreadPoolExecutor(max_workers=12) as ex:
        parts = list(ex.map(lambda ch: run_driver(run, "chans", ch, timeout=600) if ch else [], chunks))
    evq = run_driver(run, "chans", plan, timeout=600)
    # the hand-over-at-the-deadline rounds keep every processor busy on purpose: run alone, after everything that relies on timers
    solo = [dict(op="SendDeadlineRace", cap=0, fill=0, closed=False, limit=0, pending=0, rounds=(200 if q else 2000)) for _ in range(2)]
    solo += [dict(op="SendDeadlineRace", cap=0, fill=0, closed=False, limit=0, pending=0, fast=True, rounds=(6000 if q else 60000)) for _ in range(2)]
    evsolo = run_driver(run, "chans", solo, timeout=600)
    evs = evq + [e for p in parts for e in p] + evsolo
    plans = plan + [t for ch in chunks for t in ch] + solo
    segs = [[e] for e in evs]
    validate(run, "chans", "ChanAbsTrace", {}, segs, CLAUSES, plans=[[p] for p in plans])
    for r in run.rejections:
        if r["segment"] and r["segment"][-1].get("op") in ("RecvRace", "SendRace", "SendDeadlineRace", "RecvCloseRace"):
            r["fact"] = True      # a free-running race of real goroutines: the recorded execution happened; it need not recur
    run.cov.update(queued_cells=len(plan), timed_scenarios=len(timed), exhaustive=False,
                   distinct_nontrivial=distinct_count(segs, lambda s: True),
                   rule="queued receivers: every capacity 0..%d x fill x open/closed x limit 0..%d cell (+ cells with senders parked on the "
                        "channel); timed helpers: every combination of {capacity/fill, deadline kind (0, negative, 30ms, 5s, context cancelled "
                        "before / after / never), peer absent / already waiting / arriving later}; outcomes that a race could decide either "
                        "way are only checked for conservation" % (mc, ml))
    run.cov["samples"] = [evs[10], evs[-1]]
    run.assumptions += ["element type int", "real timers: scenarios are built so that the demanded outcome never depends on timing margins "
                        "below 900ms; racing outcomes are accepted either way"]
    def reexec(rej):
        return run_driver(run, "chans", rej["plan"], timeout=120)
    return finish(run, reexec=reexec)


def replay(run, rp):
    evs = run_driver(run, "chans", rp["plan"], timeout=120)
    validate(run, "chans", "ChanAbsTrace", {}, [[e] for e in evs], CLAUSES, plans=[rp["plan"]])
    return finish(run, reexec=lambda rej: run_driver(run, "chans", rej["plan"], timeout=120))
