"""C02 - AVL tree stays height-balanced after every Add and Remove (DESIGN.md section 7-C02)."""
from .. import avl_common as A


def check(run):
    return A.run_all(run, "C02", A.C02_CLAUSES)


def replay(run, rp):
    return A.replay_one(run, rp, "C02", A.C02_CLAUSES)
