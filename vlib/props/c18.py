"""C18 - AtomicValue is an atomic register; Pool never hands one item to two users (DESIGN.md section 7-C18)."""
from ..core import *


def check(run):
    q = run.quick()
    vals = [1, 2] if q else [1, 2, 3]
    mc = model_check(run, "atomics", "Register", dict(Vals=tla_set(vals)), invariants=["TypeOK"], edges=True, label="register graph")
    # the wrapper's CompareAndSwap over atomic.Value's boxes: the repaired retry loop answers false only if the value differed at some
    # moment of the call, and always returns; the pinned single attempt is shown to fail spuriously
    cas = dict(Threads=tla_set([1, 2, 3] if q else [1, 2, 3, 4]), Vals=tla_set([5, 6]), Retry="TRUE", MaxBox=5 if q else 6)
    model_check(run, "atomics", "AtomicCAS", cas, invariants=["FalseOnlyIfDiffered", "TrueOnlyIfEqual"], label="CompareAndSwap over boxes, retry loop")
    model_check(run, "atomics", "AtomicCAS", cas, properties=["EveryCallReturns"], spec="LiveSpec", label="CompareAndSwap: every call returns")
    spur = model_check(run, "atomics", "AtomicCAS", dict(cas, Retry="FALSE"), invariants=["FalseOnlyIfDiffered"], expect_violation=True,
                       label="CompareAndSwap, single attempt (pinned)")
    if not spur.get("violated"):
        raise Inconclusive("AtomicCAS.tla with Retry=FALSE should violate FalseOnlyIfDiffered")
    run.notes.append("AtomicCAS.tla with Retry=FALSE (one inner compare-and-swap, as pinned): a Store of an equal value between the value "
                     "comparison and the pointer swap makes CompareAndSwap answer false although the value never differed - violated as expected")
    model_check(run, "atomics", "Pool", dict(Threads=tla_set([1, 2, 3]), MaxFresh=3, WritesNew="FALSE"),
                invariants=["NoDoubleHandOut", "Disjoint", "NoPlainConflict"], label="pool, repaired Get")
    bad = model_check(run, "atomics", "Pool", dict(Threads=tla_set([1, 2]), MaxFresh=2, WritesNew="TRUE"), invariants=["NoPlainConflict"],
                      expect_violation=True, label="pool, Get writes pool.New")
    if not bad.get("violated"):
        raise Inconclusive("Pool.tla with WritesNew=TRUE should violate NoPlainConflict")
    run.notes.append("Pool.tla with WritesNew=TRUE (per-call write of pool.New) violates NoPlainConflict as expected")
    if not q:
        # unbounded in the length of the behaviour: an inductive invariant of the pool's hand-out discipline (4 goroutines, 6 items),
        # discharged by Apalache in three obligations, with a weakened invariant as negative control
        c4 = ["--cinit=CInit"]
        ok1, _ = apalache(run, "atomics", "PoolInd", c4 + ["--init=Init", "--inv=IndInv", "--length=0"])
        ok2, _ = apalache(run, "atomics", "PoolInd", c4 + ["--init=IndInit", "--inv=IndInv", "--length=1"])
        ok3, _ = apalache(run, "atomics", "PoolInd", c4 + ["--init=IndInit", "--inv=Props", "--length=0"])
        weak, _ = apalache(run, "atomics", "PoolInd", c4 + ["--init=WeakInit", "--inv=WeakInv", "--length=1"])
        if not (ok1 and ok2 and ok3) or weak:
            raise Inconclusive("PoolInd.tla: inductive invariant obligations Init=>Inv %s, Inv/\\Next=>Inv' %s, Inv=>Props %s; weakened invariant "
                               "inductive (should not be): %s" % (ok1, ok2, ok3, weak))
        run.notes.append("Apalache: IndInv of PoolInd.tla is inductive for 4 goroutines / 6 items and implies NoDoubleHandOut and Disjoint "
                         "(behaviours of any length); the weakened invariant (without 'every item <= fresh') is rejected as expected")
    # ---- AtomicValue: sequential tour of the register graph for int, string and a struct type ----
    paths, st = tour(mc["edges"], [0], run.rng, max_len=25)
    plans = []
    for i, p in enumerate(paths):
        ty = ("int", "string", "struct")[i % 3]
        pl = [dict(op="Reset", ty=ty)]
        for e in p:
            o = e["op"]
            if ty != "int" and o["op"] == "CompareAndSwap" and e["f"] == 0:
                continue      # CompareAndSwap before the first Store: unconstrained (atomic.Value panics on inconsistent types only)
            pl.append(dict(op=o["op"], a=o["a"], b=o["b"]))
        plans.append(pl)
    seq = split_segments(run_driver(run, "atomicvalue", [c for p in plans for c in p]), reset_key="ev", reset_val="reset")
    # ---- AtomicValue: free-running goroutines, histories with global sequence numbers ----
    hist = split_segments(run_driver(run, "atomicvalue-stress", [dict(threads=3, ops=4, rounds=60 if q else 1500, seed=run.seed, log=True),
                                                                dict(threads=6, ops=3, rounds=30 if q else 600, seed=run.seed + 7, log=True)]),
                          reset_key="ev", reset_val="reset")
    _, races = run_race(run, "atomicvalue-stress", [dict(threads=6, ops=300, rounds=5 if q else 40, seed=run.seed, log=False)])
    for rp in races:
        race_rejection(run, "atomicvalue-stress", rp)
    # large free-running workloads with linear-time necessary conditions (swap chains, CAS increments)
    cnt = run_driver(run, "atomicvalue-count", [dict(kind="swapchain", threads=8, ops=250, rounds=20 if q else 300),
                                                dict(kind="casinc", threads=8, ops=2000, rounds=20 if q else 300),
                                                dict(kind="casinc-refresh", threads=8, ops=2000, rounds=20 if q else 300),
                                                dict(kind="firststore", threads=3, ops=1, rounds=30000 if q else 400000),
                                                dict(kind="firststore", threads=8, ops=1, rounds=10000 if q else 100000),
                                                dict(kind="eqstore", threads=4, ops=20000, rounds=10 if q else 100)])
    hist = hist + [[dict(ev="reset", ty="int"), e] for e in cnt]
    validate(run, "atomics", "RegisterAbsTrace", dict(NT=6), seq + hist, [], plans=None, label="register")
    # ---- Pool: free-running goroutines with unique tokens ----
    pl = [dict(threads=4, ops=30, rounds=20 if q else 300, seed=run.seed, hasnew=True, log=True),
          dict(threads=4, ops=30, rounds=10 if q else 150, seed=run.seed + 3, hasnew=False, log=True)]
    pool = split_segments(run_driver(run, "pool-stress", pl), reset_key="ev", reset_val="reset")
    # the New field assigned between calls (nil, one function, another one), values put back and fetched again
    scripts = [dict(steps=list(sq)) for sq in (
        ("get", "A", "get", "get", "put", "get", "nil", "get", "get", "B", "get", "put", "put", "get", "get", "get"),
        ("A", "get", "nil", "get", "put", "get", "get", "A", "get"),
        ("nil", "get", "get", "B", "get", "A", "get", "put", "put", "nil", "get", "get", "get"),
        ("B", "get", "get", "get", "put", "put", "put", "nil", "get", "get", "get", "get", "A", "get"))]
    for i in range(6 if q else 100):
        scripts.append(dict(steps=[run.rng.choice(["get", "get", "get", "put", "put", "nil", "A", "B"]) for _ in range(run.rng.randint(6, 25))]))
    pool += split_segments(run_driver(run, "pool-script", scripts), reset_key="ev", reset_val="reset")
    pool += split_segments(run_driver(run, "pool-holders", [dict(threads=64, ops=400, rounds=20 if q else 300, seed=run.seed, hasnew=True),
                                                            dict(threads=64, ops=400, rounds=10 if q else 150, seed=run.seed + 1, hasnew=False)]),
                           reset_key="ev", reset_val="reset")
    validate(run, "atomics", "PoolAbsTrace", {}, pool, [], plans=None, label="pool")
    _, praces = run_race(run, "pool-stress", [dict(threads=6, ops=200, rounds=4 if q else 30, seed=run.seed, hasnew=True, log=False),
                                              dict(threads=6, ops=200, rounds=2 if q else 15, seed=run.seed, hasnew=False, log=False)])
    _, praces2 = run_race(run, "pool-holders", [dict(threads=48, ops=150, rounds=3 if q else 20, seed=run.seed, hasnew=True)])
    praces = praces + praces2
    for rp in praces:
        race_rejection(run, "pool-stress", rp)
    for r in run.rejections:
        r["fact"] = True
    run.cov.update(tour=st, register_histories=len(hist), pool_histories=len(pool), exhaustive=False,
                   distinct_nontrivial=distinct_count(seq + hist + pool, lambda s: len(s) > 2),
                   rule="AtomicValue: tour paths covering every edge of the register graph (zero before the first store, Swap returns the replaced "
                        "value, CompareAndSwap succeeds iff equal) for int, string and a struct type, plus free-running histories of 3x4 and 6x3 "
                        "calls validated as linearizable; Pool: free-running Get/Put histories over unique tokens, with and without New; both "
                        "also run under the race detector")
    run.cov["samples"] = [seq[0][:8], pool[0][:8]]
    run.assumptions += ["no hook points exist inside atomic.Value / sync.Pool: concurrency defects inside these two-line wrappers are found "
                        "probabilistically by the free-running stage, sequential-semantic defects deterministically",
                        "data-race clause decided by the Go race detector"]
    return finish(run)


def replay(run, rp):
    return check(run)
