"""C08 - Array2D is a grid of independent cells for every width and height (DESIGN.md section 7-C08)."""
from ..core import *

CLAUSES = ["I_Grid", "I_Window", "I_Clone", "I_Dims", "I_String", "I_Panic"]


def execute(run, plans):
    return run_plans(run, "array2d", plans)


def clean(op):
    o = {k: v for k, v in op.items() if k not in ("pan", "ret")}
    return o


def check(run):
    m = 3 if run.quick() else 4
    mc = model_check(run, "array2d", "Array2D", dict(MaxW=m, MaxH=m), invariants=["Refines", "IdxInjective", "WinInRow"], edges=True)
    init = ["void", 0, 0, [], [], [], 0]
    paths, st = tour(mc["edges"], [init], run.rng, max_len=8)
    # every third tour path runs on string elements ("" for 0: cells that print as nothing), the others on ints
    plans = [[dict(op="Reset", ty=("string" if i % 3 == 2 else "int"))] + [clean(e["op"]) for e in p] for i, p in enumerate(paths)]
    for (w, h) in ((1, 1), (2, 1), (3, 2), (1, 3), (3, 3)):
        p = [dict(op="Reset", ty="string"), dict(op="NewFilled", w=w, h=h, v=0)]
        for y in range(h):
            for x in range(w):
                p.append(dict(op="Set", x1=x, y1=y, v=7 + x))
                p.append(dict(op="Set", x1=x, y1=y, v=0))
            p.append(dict(op="Set", x1=w - 1, y1=y, v=5))
        p += [dict(op="Clone"), dict(op="Fill", x1=0, y1=0, x2=w - 1, y2=h - 1, v=0)]
        plans.append(p)
    # beyond the bounds: seeded larger rectangular shapes with random call sequences
    for i in range(10 if run.quick() else 120):
        w, h = run.rng.randint(0, 9), run.rng.randint(0, 9)
        p = [dict(op="Reset"), dict(op="New", w=w, h=h)]
        haswin = hasb = False
        winlen = 0
        for j in range(run.rng.randint(5, 25)):
            o = run.rng.choice(["Set", "Get", "Row", "RowSpan", "Fill", "WinSet", "Clone", "SetB", "Set", "Fill"])
            x1, x2 = run.rng.randint(-1, w), run.rng.randint(-1, w)
            y1, y2 = run.rng.randint(-1, h), run.rng.randint(-1, h)
            inx = lambda x: 0 <= x < w
            iny = lambda y: 0 <= y < h
            if o == "RowSpan" and inx(x1) and inx(x2) and iny(y1) and x1 > x2:
                x1, x2 = x2, x1
            if o == "WinSet":
                if not haswin or winlen == 0:
                    continue
                p.append(dict(op=o, x1=run.rng.randrange(winlen), v=700 + j))
                continue
            if o == "SetB":
                if not hasb or not (inx(x1) and iny(y1)):
                    continue
            if o == "Clone":
                hasb = True
            if o == "Row" and iny(y1):
                haswin, winlen = True, w
            if o == "RowSpan" and inx(x1) and inx(x2) and iny(y1):
                haswin, winlen = True, x2 - x1 + 1
            p.append(dict(op=o, x1=x1, y1=y1, x2=x2, y2=y2, v=500 + j))
        plans.append(p)
    # floats with negative zero and an element type that cannot be compared
    for ty, vals in (("float", (-1000, 0, 3)), ("slice", (0, 4)), ("ptr", (0, 6))):
        for (w, h) in ((1, 1), (2, 2), (3, 1)):
            for v in vals:
                p = [dict(op="Reset", ty=ty), dict(op="NewFilled", w=w, h=h, v=v), dict(op="Set", x1=0, y1=0, v=vals[0]), dict(op="Get", x1=w - 1, y1=h - 1),
                     dict(op="Fill", x1=0, y1=0, x2=w - 1, y2=h - 1, v=vals[-1]), dict(op="Clone"), dict(op="Fill", x1=0, y1=0, x2=0, y2=0, v=vals[0]),
                     dict(op="New", w=w, h=h), dict(op="NewJagged", w=w, h=h, lens=[1])]
                plans.append(p)
    # large and lopsided shapes
    for (w, h) in ((33, 17), (1, 200), (200, 1), (64, 64)) if run.quick() else ((33, 17), (1, 200), (200, 1), (64, 64), (300, 7), (7, 300), (128, 129)):
        p = [dict(op="Reset", ty="int"), dict(op="New", w=w, h=h)]
        for j in range(12):
            x1, x2 = sorted((run.rng.randrange(w), run.rng.randrange(w)))
            y1, y2 = run.rng.randrange(h), run.rng.randrange(h)
            p.append(dict(op=run.rng.choice(["Set", "Fill", "RowSpan", "Row", "Get"]), x1=x1, y1=y1, x2=x2, y2=y2, v=800 + j))
        p += [dict(op="Clone"), dict(op="Fill", x1=0, y1=0, x2=w - 1, y2=h - 1, v=3), dict(op="Get", x1=w - 1, y1=h - 1), dict(op="Set", x1=w, y1=0, v=1),
              dict(op="Set", x1=0, y1=h, v=1)]
        plans.append(p)
    # extreme coordinates (index arithmetic that wraps around must not land inside again): every coordinate of every call
    HUGE = ["minint", "minint1", "maxint", "maxint1", "p62", "m62", "p61", "m61", "p60", "p32", "m32", "p31", "wrap", "inv1", "inv2", "inv3"]
    shapes = [(4, 3), (3, 3), (8, 2), (16, 2), (5, 4), (1, 1), (64, 1), (7, 5), (2, 2), (0, 0), (3, 0), (0, 3)]
    for (w, h) in (shapes if not run.quick() else shapes[:4] + run.rng.sample(shapes[4:], 3)):
        p = [dict(op="Reset"), dict(op="New", w=w, h=h)]
        for o, coords in (("Get", ("x1", "y1")), ("Set", ("x1", "y1")), ("Row", ("y1",)), ("RowSpan", ("x1", "x2", "y1")), ("Fill", ("x1", "y1", "x2", "y2"))):
            for cn in coords:
                for hk in HUGE:
                    p.append(dict(op=o, x1=0, y1=0, x2=max(0, w - 1), y2=max(0, h - 1), v=900, huge={cn: hk}))
        plans.append(p)
    segs = execute(run, plans)
    if len(segs) != len(plans):
        raise Inconclusive("driver returned %d segments for %d plans" % (len(segs), len(plans)))
    plans, segs = drop_crashed(plans, segs)
    conf = conformance(plans, segs, ["x"])
    validate(run, "array2d", "GridAbsTrace", {}, segs, CLAUSES, plans=plans)
    run.cov.update(tour=st, conformance=conf, exhaustive=st["edges_covered"] == st["edges_total"],
                   distinct_nontrivial=distinct_count(segs, lambda s: len(s) > 1),
                   rule="tour paths covering every edge of the TLC graph of Array2D.tla: every shape 0..%d x 0..%d, every "
                        "coordinate in -1..w / -1..h for Set/Get/Row/RowSpan/Fill (all 4-corner rectangles), every jagged "
                        "input with 0..h+1 rows of 0..w+1 values, windows written through, clones mutated; plus seeded "
                        "sequences on shapes up to 9x9; plus 64-bit extreme values (min/max, +-2^31..2^62, multiples of the width's modular "
                        "inverse) for every coordinate of every call on 7-12 shapes" % (m, m))
    run.cov["samples"] = [segs[3][:4], segs[-1][:4]]
    run.assumptions += ["element type int", "RowSpan with x1 > x2 inside the bounds is outside the property and not driven"]
    return finish(run, reexec=lambda rej: execute(run, [rej["plan"]])[0])


def replay(run, rp):
    segs = [sg for sg in execute(run, [rp["plan"]]) if sg is not None]
    validate(run, "array2d", "GridAbsTrace", {}, segs, CLAUSES, plans=[rp["plan"]])
    return finish(run, reexec=lambda rej: execute(run, [rej["plan"]])[0])
