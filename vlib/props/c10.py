"""C10 - PubSub delivers every event exactly once to every subscriber (DESIGN.md section 7-C10)."""
import glob
from ..core import *

KINDS = ["Pub", "PubSlice", "PubWait", "PubSliceWait", "PubSync", "PubSliceSync"]
ASYNC = {"Pub", "PubSlice"}


def S(do, **kw):
    d = dict(do=do)
    d.update(kw)
    return d


def nvals(kind):
    return 2 if "Slice" in kind else 1


def scenarios(run):
    q = run.quick()
    out = []
    bufs = [0, 1, 2]
    # P1 happy path: 1-2 subscribers with every buffer size, every publish variant, with and without timeouts
    for kind in KINDS:
        for tmo in (False, True):
            for bl in ([b] for b in bufs):
                pass
            for b1 in bufs:
                for b2 in ([None] + bufs if not q else [None, run.rng.choice(bufs)]):
                    st = [S("sub", c=1, buf=b1)] + ([S("sub", c=2, buf=b2)] if b2 is not None else [])
                    st += [S("pub", id=1, kind=kind, n=nvals(kind), only=0), S("quiesce")]
                    ns = 1 if b2 is None else 2
                    # receive from the subscribers so that unbuffered hand-offs can happen (order: per event, per subscriber)
                    for i in range(nvals(kind)):
                        for c in range(1, ns + 1):
                            st.append(S("recv", c=c))
                    st += [S("waitret", id=1), S("end")]
                    out.append(dict(timeout=tmo, steps=st, pat="P1"))
    # P2 unsubscribe while an asynchronous send is pending (nobody receiving), other subscribers unaffected
    # (the Sync variants hold the read lock while they send, so an Unsub from the script's own goroutine would wait for a send that
    #  waits for the script: by design, and not a scenario a script can run)
    for kind in ("Pub", "PubSlice", "PubWait", "PubSliceWait"):
        for b1 in (0, 1):
            for other in (None, 0, 1):
                for tmo in (False, True):
                    st = [S("sub", c=1, buf=b1)] + ([S("sub", c=2, buf=other)] if other is not None else [])
                    st += [S("pub", id=1, kind=kind, n=nvals(kind), only=0), S("quiesce")]
                    st += [S("unsub", c=1), S("quiesce")]
                    if other is not None:
                        st += [S("recv", c=2)] * nvals(kind)
                    st += [S("recv", c=1), S("waitret", id=1), S("end")]
                    out.append(dict(timeout=tmo, steps=st, pat="P2"))
    # P8 three subscribers, the publish held up by the first (unbuffered) one, a concurrent Unsub of the first / middle / last
    #    (on its own goroutine: the Sync variants make it wait); everybody who stays subscribed gets every event exactly once
    for kind in KINDS:
        for victim in (1, 2, 3):
            st = [S("sub", c=1, buf=0), S("sub", c=2, buf=2), S("sub", c=3, buf=2), S("pub", id=1, kind=kind, n=nvals(kind), only=0), S("quiesce"),
                  S("unsub_async", c=victim), S("quiesce")]
            st += [S("recv", c=1)] * nvals(kind) + [S("quiesce"), S("wait_unsub"), S("waitret", id=1), S("end")]
            out.append(dict(timeout=False, steps=st, pat="P8"))
    # P9 a WithOnly publisher that outlives its subscription: Unsub through the parent before, or during, a publish through the clone
    for kind in KINDS:
        for b1 in (0, 1):
            st = [S("sub", c=1, buf=b1), S("sub", c=2, buf=2), S("withonly", w=1, c=1), S("unsub", c=1),
                  S("pub", id=1, kind=kind, n=nvals(kind), only=1, via=1), S("quiesce"), S("recv", c=1), S("waitret", id=1), S("end")]
            out.append(dict(timeout=False, steps=st, pat="P9"))
            st = [S("sub", c=1, buf=0), S("sub", c=2, buf=2), S("withonly", w=1, c=1), S("pub", id=1, kind=kind, n=nvals(kind), only=1, via=1),
                  S("quiesce"), S("unsub", c=1), S("quiesce"), S("recv", c=1), S("waitret", id=1), S("end")]
            out.append(dict(timeout=False, steps=st, pat="P9"))
    # P10 the asynchronous Slice variants with a slow subscriber: the caller reuses its slice as soon as the call has returned
    for kind in ("PubSlice", "PubSliceWait"):
        for b1 in (0, 1):
            st = [S("sub", c=1, buf=b1), S("pub", id=1, kind=kind, n=2, only=0), S("quiesce"), S("sleep", ms=20), S("recv", c=1), S("recv", c=1),
                  S("waitret", id=1), S("end")]
            out.append(dict(timeout=False, steps=st, pat="P10"))
    # P3 error values: unknown, nil, twice
    out.append(dict(timeout=False, pat="P3", steps=[S("sub", c=1, buf=1), S("unsub", c=99), S("unsub", c=0), S("unsub", c=1), S("unsub", c=1),
                                                    S("recv", c=1), S("pub", id=1, kind="PubSync", n=1, only=0), S("waitret", id=1), S("end")]))
    # P4 timeouts: nobody receives; exactly one OnPubTimeout per (event, subscriber); a late receiver finds nothing
    for kind in KINDS:
        for ns in (1, 2):
            st = [S("sub", c=c, buf=0) for c in range(1, ns + 1)] + [S("pub", id=1, kind=kind, n=nvals(kind), only=0), S("sleep", ms=200),
                                                                         S("waitret", id=1)] + [S("recv", c=c) for c in range(1, ns + 1)][:1] + [S("end")]
            out.append(dict(timeout=True, steps=st, pat="P4"))
    # P5 WithOnly: only the given subscription receives
    for kind in KINDS:
        st = [S("sub", c=1, buf=2), S("sub", c=2, buf=2), S("pub", id=1, kind=kind, n=nvals(kind), only=2), S("quiesce"), S("waitret", id=1),
              S("recv", c=1), S("end")]
        out.append(dict(timeout=False, steps=st, pat="P5"))
    # P6 UnsubAll closes everything; later publishes reach nobody
    for kind in ("Pub", "PubWait", "PubSync"):
        st = [S("sub", c=1, buf=1), S("sub", c=2, buf=0), S("pub", id=1, kind="Pub", n=1, only=0), S("quiesce"), S("unsuball"), S("quiesce"),
              S("recv", c=1), S("recv", c=1), S("recv", c=2), S("pub", id=2, kind=kind, n=1, only=0), S("waitret", id=2), S("end")]
        out.append(dict(timeout=False, steps=st, pat="P6"))
    # P7 a subscriber that arrives while a publish is in progress; two publishers; publication order of the Sync variants
    for k1 in KINDS:
        for k2 in (KINDS if not q else [run.rng.choice(KINDS)]):
            st = [S("sub", c=1, buf=4), S("pub", id=1, kind=k1, n=nvals(k1), only=0), S("sub", c=2, buf=4), S("pub", id=2, kind=k2, n=nvals(k2), only=0),
                  S("waitret", id=1), S("waitret", id=2), S("end")]
            out.append(dict(timeout=False, steps=st, pat="P7"))
    # P11 many subscribers, most of them removed one by one (first, middle, last positions), then everybody who stayed gets every event
    for ns, keep in ((20, 4), (40, 7)) if q else ((20, 4), (40, 7), (70, 9), (130, 20), (300, 30)):
        for order in ("front", "back", "mixed"):
            ids = [c for c in range(1, ns + 2) if c != 99][:ns]      # (99 is the script's name for a channel that was never subscribed)
            st = [S("sub", c=c, buf=2) for c in ids]
            victims = {"front": ids[: ns - keep], "back": ids[keep:][::-1], "mixed": run.rng.sample(ids, ns - keep)}[order]
            for j, v in enumerate(victims):
                st.append(S("unsub", c=v))
                if j % 7 == 3:
                    st.append(S("unsub", c=v))        # a second time: ErrAlreadyUnsubscribed, nothing else changes
            st += [S("pub", id=1, kind="PubSync", n=1, only=0), S("waitret", id=1), S("pub", id=2, kind="PubWait", n=1, only=0), S("waitret", id=2), S("end")]
            out.append(dict(timeout=False, steps=st, pat="P11"))
    # P12 WithOnly while the channel is the only subscription, subscribers that arrive later must not hear from the clone
    for kind in KINDS:
        st = [S("sub", c=1, buf=4), S("withonly", w=1, c=1), S("sub", c=2, buf=4), S("sub", c=3, buf=4),
              S("pub", id=1, kind=kind, n=nvals(kind), only=1, via=1), S("quiesce"), S("waitret", id=1),
              S("pub", id=2, kind="PubSync", n=1, only=0), S("waitret", id=2), S("end")]
        out.append(dict(timeout=False, steps=st, pat="P12"))
    # B uncontrolled bursts: windows of a few instructions (simultaneous Unsubs of different channels; publishers racing for the last
    #   buffer slot of a stalled subscriber under a timeout), so many rounds, summarised per batch
    for n, dup in ((4, 1), (2, 1), (3, 2), (8, 1)):
        out.append(dict(burst="unsub", n=n, dup=dup, rounds=(20000 if q else 300000), pat="B", steps=[]))
    for pubs, buf, wait in ((8, 1, False), (8, 1, True), (4, 2, False), (6, 3, True)):
        out.append(dict(burst="slot", pubs=pubs, buf=buf, wait=wait, rounds=(1500 if q else 20000), pat="B", steps=[]))
    # seeded random mixes (buffered subscribers so that nothing has to wait for the script)
    for i in range(20 if q else 300):
        tmo = run.rng.random() < 0.3
        st, nsub, nid, live = [], 0, 0, []
        for j in range(run.rng.randint(4, 12)):
            r = run.rng.random()
            if r < 0.25 and nsub < 3:
                nsub += 1
                live.append(nsub)
                st.append(S("sub", c=nsub, buf=8))      # 4 calls x 2 events fit: nothing ever waits for the script
            elif r < 0.6 and nid < 4:
                nid += 1
                k = run.rng.choice(KINDS)
                st.append(S("pub", id=nid, kind=k, n=nvals(k), only=(run.rng.choice(live) if live and run.rng.random() < 0.2 else 0)))
                if k not in ASYNC:
                    st += [S("waitret", id=nid)]
            elif r < 0.75 and live:
                c = run.rng.choice(live)
                live.remove(c)
                st.append(S("unsub", c=c))
            elif r < 0.8:
                st.append(S("unsuball"))
                live = []
            elif live:
                st.append(S("recv", c=run.rng.choice(live)))
        st += [S("waitret", id=k) for k in range(1, nid + 1)] + [S("end")]
        out.append(dict(timeout=tmo, steps=st, pat="R"))
    return out


def run_scenarios(run, scs):
    """Run the scenarios; if the process dies, the scenario that was running gets a 'crash' line and the rest is resumed."""
    segs = [None] * len(scs)
    todo = list(range(len(scs)))
    guard = 0
    while todo and guard < 40:
        guard += 1
        evs, rc, err = run_driver(run, "pubsub", [scs[i] for i in todo], allow_fail=True, timeout=1800)
        cur = split_segments(evs, reset_key="ev", reset_val="reset")
        for k, s in enumerate(cur):
            if k < len(todo):
                segs[todo[k]] = s
        if rc == 0:
            todo = []
            break
        msg = ""
        for ln in err.splitlines():
            if ln.startswith("panic:") or ln.startswith("fatal error:"):
                msg = ln.strip()
                break
        if not msg:
            raise Inconclusive("pubsub driver failed rc=%d: %s" % (rc, err[-1500:]))
        k = len(cur) - 1
        if k < 0:
            raise Inconclusive("pubsub driver crashed before its first scenario: %s" % err[-800:])
        segs[todo[k]] = cur[k] + [dict(ev="crash", msg=msg)]
        todo = todo[k + 1:]
    return segs


def check(run):
    q = run.quick()
    base = dict(Chans=tla_set([1, 2]), Pubs=tla_set([1, 2]), Kinds='{"Pub","PubWait","PubSync"}', ClonePubs="{}", SyncRecover="TRUE")
    inv = ["NoPanic", "AtMostOnce", "WaitReturnsAfterHandoff", "ExactlyOnceAtQuiescence"]
    model_check(run, "pubsub", "PubSub", dict(base, Timeout="FALSE", Recover="TRUE"), invariants=inv, label="repaired design, no timers")
    model_check(run, "pubsub", "PubSub", dict(base, Timeout="TRUE", Recover="TRUE"), invariants=inv, label="repaired design, timers")
    model_check(run, "pubsub", "PubSub", dict(base, Timeout="TRUE", Recover="TRUE", ClonePubs="{2}"), invariants=inv + ["WithOnlyOnly"],
                label="repaired design, one publisher through a WithOnly clone, UnsubAll, timers")
    bad2 = model_check(run, "pubsub", "PubSub", dict(base, Timeout="FALSE", Recover="TRUE", ClonePubs="{2}", SyncRecover="FALSE"), invariants=["NoPanic"],
                       expect_violation=True, label="clone's Sync send without protection")
    if not bad2.get("violated"):
        raise Inconclusive("PubSub.tla: a WithOnly clone whose Sync send does not tolerate a closed channel should violate NoPanic")
    run.notes.append("PubSub.tla with SyncRecover=FALSE: Unsub through the parent closes the channel under a Sync publish through a WithOnly clone (own mutex): NoPanic violated as expected")
    bad = model_check(run, "pubsub", "PubSub", dict(base, Timeout="FALSE", Recover="FALSE"), invariants=["NoPanic"], expect_violation=True,
                      label="pinned design")
    if not bad.get("violated"):
        raise Inconclusive("PubSub.tla with Recover=FALSE should violate NoPanic (send on a channel closed by Unsub) but TLC found nothing")
    run.notes.append("PubSub.tla with Recover=FALSE (sends after RUnlock, no protection) violates NoPanic as expected")
    scs = scenarios(run)
    # the scripts mostly wait (quiescence polls, timeouts): run them in 8 driver processes side by side
    from concurrent.futures import ThreadPoolExecutor
    idx = [list(range(i, len(scs), 8)) for i in range(8)]
    with ThreadPoolExecutor(max_workers=8) as ex:
        parts = list(ex.map(lambda ix: run_scenarios(run, [scs[i] for i in ix]) if ix else [], idx))
    segs = [None] * len(scs)
    for ix, part in zip(idx, parts):
        for i, s in zip(ix, part):
            segs[i] = s
    segs2, plans = [], []
    for s, sc in zip(segs, scs):
        if s is not None:
            segs2.append(s)
            plans.append(sc)
    validate(run, "pubsub", "PubSubAbsTrace", dict(MaxCalls=4), segs2, [], plans=plans, chunk_events=1500)
    for r in run.rejections:
        if r["segment"] and r["segment"][-1].get("ev") == "crash":
            r["fact"] = True
            r["clause"] = "NoPanic"
        elif r.get("plan") and r["plan"].get("pat") == "B":
            r["fact"] = True       # uncontrolled rounds: what was observed is the evidence, a re-run need not hit the same window
    pats = {}
    for sc in scs:
        pats[sc["pat"]] = pats.get(sc["pat"], 0) + 1
    run.cov.update(scenarios=len(scs), patterns=pats, exhaustive=False, distinct_nontrivial=distinct_count(segs2, lambda s: len(s) > 3),
                   rule="scenario scripts on the real PubSub, each validated by TLC against the monitor: every publish variant x 1-2 subscribers "
                        "x buffer sizes 0/1/2 x timeouts on/off (happy path); Unsub under a pending send; error values; timeouts with nobody "
                        "receiving; WithOnly; UnsubAll; a subscriber arriving mid-publish with two publishers; seeded random mixes. "
                        "non-trivial = at least one publish call")
    run.cov["samples"] = [segs2[0][:14], segs2[len(segs2) // 2][:14]]
    run.assumptions += ["event type int", "internal sender goroutines cannot be scheduled from outside: scripts wait for quiescence read from goroutine "
                        "states; 'eventually' for Pub/PubSlice = settled at quiescence with every subscription drained",
                        "OnPubTimeout does not identify the subscriber: timeouts are counted per event value"]
    def reexec(rej):
        s = run_scenarios(run, [rej["plan"]])
        return s[0]
    return finish(run, reexec=reexec)


def replay(run, rp):
    segs = run_scenarios(run, [rp["plan"]])
    validate(run, "pubsub", "PubSubAbsTrace", dict(MaxCalls=4), segs, [], plans=[rp["plan"]])
    for r in run.rejections:
        if r["segment"] and r["segment"][-1].get("ev") == "crash":
            r["fact"] = True
    return finish(run, reexec=lambda rej: run_scenarios(run, [rej["plan"]])[0])
