"""C04 - sync2.Map is linearizable to an ordinary map, sequentially and concurrently (DESIGN.md section 7-C04)."""
from ..core import *
from ..syncmap_common import *

KEYS = [1, 2]
MC_INV = ["Linearizable", "ExpInv", "NilInv", "LiveInv", "LockInv", "RangeCallbackUnlocked"]


def mc_consts(threads, nops, setup, maxe=10, keys=KEYS, kinds=ALLK):
    return dict(Threads=tla_set(threads), Keys=tla_set(keys), MaxE=maxe, OpKinds=kinds, NOps=nops, SetupLen=setup)


def program(setup, progs, mode, n=0, seed=1, fine=0, schedule=None, keys=KEYS, preempt=0, epi=0):
    return dict(setup=setup_calls(setup), progs=[thread_calls(i + 1, p) for i, p in enumerate(progs)],
                mode=mode, n=n, seed=seed, fine=fine, schedule=schedule or [], keys=keys, preempt=preempt, epi=epi)


def check(run):
    q = run.quick()
    # ---- 1. design level: every interleaving of the modelled atomic steps ----
    model_check(run, "syncmap", "SyncMap", mc_consts([1, 2], 1, 2), invariants=MC_INV, label="2 goroutines x 1 call, set-up <= 2")
    model_check(run, "syncmap", "SyncMap", mc_consts([1, 2], 1, 2), properties=["AllCallsReturn"], spec="LiveSpec",
                label="liveness under fair scheduling: every call returns (no endless retry)")
    if not q:
        model_check(run, "syncmap", "SyncMap", mc_consts([1, 2], 1, 3), invariants=MC_INV, label="2x1, set-up <= 3", timeout=3000)
        model_check(run, "syncmap", "SyncMap", mc_consts([1, 2], 2, 2, maxe=12), invariants=MC_INV, label="2x2, set-up <= 2", timeout=3000)
        model_check(run, "syncmap", "SyncMap", mc_consts([1, 2, 3], 1, 2, maxe=12), invariants=MC_INV, label="3x1, set-up <= 2", timeout=3000)
    ops = ops_over(KEYS)
    # ---- 2. every single-goroutine call sequence up to length L: drives the read/dirty/expunged machine ----
    L = 3 if q else 4
    seqs = [s for n in range(0, L + 1) for s in itertools.product(ops, repeat=n)]
    seq_programs = [program(list(s), [], "schedule", fine=1) for s in seqs]
    hists, fines = run_programs(run, "syncmap", seq_programs)
    # group set-up prefixes by the layout they build (projection of the internal state at the end)
    layouts = {}
    def lkey(last):        # the layout, blind to which values are stored (presence, nil, expunged, shared entry, flags, miss counter)
        nv = lambda x: 1 if x > 0 else x
        return json.dumps([[nv(x) for x in last["r"]], [nv(x) for x in last["d"]], last["am"], last["dn"], last["ms"]])
    for s, f in zip(seqs, fines):
        last = f[-1]
        key = lkey(last)
        if key not in layouts or len(s) < len(layouts[key]):
            layouts[key] = s
    # ... and closed under one more call, breadth first, so that layouts which need longer histories (an expunged entry next to a
    # dirty-only one needs four calls) are reached without enumerating every sequence of that length
    frontier, depth = [s for s in layouts.values() if len(s) == L], L
    bfs_fines = []
    while frontier and depth < (7 if q else 9):
        depth += 1
        ext = [tuple(s) + (o,) for s in frontier for o in ops]
        _, fx = run_programs(run, "syncmap", [program(list(s), [], "schedule", fine=1) for s in ext])
        frontier = []
        for s, f in zip(ext, fx):
            last = f[-1]
            key = lkey(last)
            if key not in layouts:
                layouts[key] = s
                frontier.append(s)
                bfs_fines.append(f)
    fines = fines + bfs_fines
    lay = sorted(layouts.values(), key=lambda s: (len(s), s))
    # ---- 3. concurrent: every schedule (DFS over the hook-level steps) of 2 goroutines x 1 call from every layout ----
    pairs = [(a, b) for a in ops for b in ops]
    progs = [(s, [[a], [b]]) for s in lay for (a, b) in pairs]
    cap = 400
    # quick: every schedule with at most 2 preemptions; thorough: additionally the full depth-first enumeration (capped)
    # (the sequential epilogue comes in two orders, "reads first" and "stores first"; quick alternates them by program, thorough runs both)
    conc = [program(list(s), p, "dfs", n=cap, fine=1, preempt=2 if q else 3, epi=(i + run.seed) % 2) for i, (s, p) in enumerate(progs)]
    if not q:
        conc += [program(list(s), p, "dfs", n=cap, fine=1, preempt=0, epi=1 - (i + run.seed) % 2) for i, (s, p) in enumerate(progs)]
    # one call racing a two-call goroutine (1 x 2): every <= 2-preemption schedule, from a seeded sample of layouts x call triples
    triples = [(a, b, c) for a in ops for b in ops for c in ops]
    n12 = 200 if q else len(triples) * len(lay)
    if q:
        for i in range(n12):
            a, b, c = run.rng.choice(triples)
            conc.append(program(list(run.rng.choice(lay)), [[a], [b, c]], "dfs", n=cap, fine=0, preempt=2, epi=i % 2))
    else:      # thorough: every layout x every call triple
        for s in lay:
            for j, (a, b, c) in enumerate(triples):
                conc.append(program(list(s), [[a], [b, c]], "dfs", n=cap, fine=0, preempt=2, epi=1))
    # a brand-new third key arrives while a call on key 1 is in flight (1 x 2): a Store/LoadOrStore of a key the map has never seen
    # rebuilds the dirty map and expunges cleared entries, after a call that promotes or clears (Range, a miss, a delete of key 1)
    fresh = [(s, a, b, c) for s in lay for a in ops_over([1])[:-1] for b in (("Range", 1), ("Load", 3), ("Delete", 1), ("LoadAndDelete", 1), ("Load", 1))
             for c in (("Store", 3), ("LoadOrStore", 3))]
    for i, (s, a, b, c) in enumerate(fresh if not q else run.rng.sample(fresh, 200)):
        conc.append(program(list(s), [[a], [b, c]], "dfs", n=cap, fine=0, preempt=2, epi=i % 2, keys=[1, 2, 3]))
    # three goroutines on ONE key (the lock-free compare-and-swap loops only misbehave when a third party changes the entry back):
    # every <= 2-preemption schedule of three calls on key 1, from the layouts that have key 1 in the read map
    inread = [sq for key, sq in layouts.items() if json.loads(key)[0][0] != -9]
    k1 = ops_over([1])[:-1]
    # (the goroutines are interchangeable, so the programs are the multisets of three calls: 35 per layout; at most 250 schedules of
    #  each in the quick tier, 1500 in the thorough tier)
    three = [(sq, a, b, c) for sq in inread for ia, a in enumerate(k1) for ib, b in enumerate(k1) for ic, c in enumerate(k1) if ia <= ib <= ic]
    for i, (sq, a, b, c) in enumerate(three):
        conc.append(program(list(sq), [[a], [b], [c]], "dfs", n=250 if q else 1500, fine=0, preempt=2, epi=i % 2))
    # 3 goroutines x 1 call and 2 goroutines x 2 calls: seeded random schedules (beyond the exhaustive bounds)
    rnd = []
    for i in range(60 if q else 1200):
        s = run.rng.choice(lay)
        if i % 2:
            p = [[run.rng.choice(ops)] for _ in range(3)]
        else:
            p = [[run.rng.choice(ops), run.rng.choice(ops)] for _ in range(2)]
        rnd.append(program(list(s), p, "random", n=30 if q else 60, seed=run.seed * 1000 + i, fine=1))
    for i in range(10 if q else 200):   # 4 goroutines, 3 keys
        p = [[(run.rng.choice(KINDS + ["Range"]), run.rng.choice([1, 2, 3])) for _ in range(run.rng.randint(1, 3))] for _ in range(4)]
        rnd.append(program([(run.rng.choice(KINDS), run.rng.choice([1, 2, 3])) for _ in range(run.rng.randint(0, 4))], p,
                           "random", n=20 if q else 50, seed=run.seed * 77 + i, fine=0, keys=[1, 2, 3]))
    # one goroutine, a large map: g expunged entries in the read map and f keys that live in the dirty map only, deleted one by one
    # with the remaining ones loaded after each deletion (size-dependent shortcuts; every relation between the two counts)
    bigp = []
    for N in ((70,) if q else (64, 70, 130)):
        for g in (1, 2, 3):
            for f in (g, g + 1, g + 3):
                ks = list(range(1, N + f + 1))
                h = [("Store", k) for k in ks[:N]] + [("Range", 1)] + [("Delete", k) for k in ks[:g]]
                fresh = ks[N:N + f]
                h += [("Store" if i % 2 else "LoadOrStore", k) for i, k in enumerate(fresh)]
                for i, k in enumerate(fresh):
                    h += [("LoadAndDelete" if i % 2 else "Delete", k)] + [("Load", x) for x in fresh[i:]] + [("Load", ks[g]), ("Load", ks[0])]
                    if i == f - g:
                        h += [("Delete", fresh[-1]), ("LoadOrStore", fresh[-1]), ("Range", 1)]
                bigp.append(program(h, [], "schedule", keys=ks))
    hb, _ = run_programs(run, "syncmap", bigp)
    bsegs, bsrcs = history_segments(hb)
    validate(run, "syncmap", "MapAbsTrace", dict(NK=140, NT=8), bsegs, [], plans=replay_plans(bsrcs), label="large maps")
    h2, f2 = run_programs(run, "syncmap", conc)
    h3, f3 = run_programs(run, "syncmap", rnd)
    allh = hists + h2 + h3
    stuck = [h for h in allh if h["deadlock"]]
    free = sum(1 for h in allh if h["free"])
    # ---- 4. verdict: TLC decides linearizability of every distinct real history ----
    segs, srcs = history_segments(allh)
    # free-running stress: histories under real parallelism, and the race detector as a monitor for the data-race clause
    sh, _ = run_programs(run, "syncmap-stress", [dict(threads=4, ops=6, keys=2, seed=run.seed, rounds=40 if q else 600, log=True),
                                                 dict(threads=8, ops=4, keys=3, seed=run.seed + 1, rounds=20 if q else 300, log=True)])
    _, races = run_race(run, "syncmap-stress", [dict(threads=6, ops=200, keys=3, seed=run.seed, rounds=6 if q else 60, log=False)])
    for rp in races:
        race_rejection(run, "syncmap-stress", rp)
    s2, src2 = history_segments(sh)
    segs, srcs = segs + s2, srcs + src2
    validate(run, "syncmap", "MapAbsTrace", dict(NK=3, NT=8), segs, [], plans=replay_plans(srcs), label="history")
    for r in run.rejections:
        r["fact"] = True       # the history was produced by the real code; controlled schedules are stored in the replay file
    # ---- 5. conformance: fine traces (every hook-level step with the projected internal state) against SyncMap.tla ----
    div = []
    fine2 = [f for f in fines + f2 + f3 if f]
    fsegs = [f for f in fine2 if len([k for k in f[-1]["r"]]) == 2]
    nconf = validate(run, "syncmap", "SyncMapTrace", mc_consts([1, 2, 3], 3, 6, maxe=14), fsegs, [], label="conformance",
                     count=False, into=div, max_rej=3)
    conf = dict(conformance=not div, fine_traces=len(fsegs), accepted=nconf)
    if div:
        d0 = div[0]
        conf["first_divergence"] = dict(at_event=d0["offset"], event=d0["segment"][-1])
        log("NOTE conformance-divergence: fine trace rejected by SyncMapTrace at step %d: %s" % (d0["offset"], json.dumps(d0["segment"][-1])[:300]))
    run.cov.update(layouts=len(lay), sequential_sequences=len(seqs), dfs_programs=len(conc), executions=run.cov.get('executions_total', 0),
                   distinct_histories=len(segs), free_mode_executions=free, deadlocks=len(stuck), conformance=conf,
                   exhaustive=not q,
                   distinct_nontrivial=len(segs),
                   rule="executions = (a) every single-goroutine call sequence of length <= %d over 5 call kinds x 2 keys + Range, (b) for "
                        "every distinct internal layout those build and every pair of calls: every hook-level schedule with <= 2 (thorough: 3) "
                        "preemptions, thorough also the full DFS (<= %d schedules per program), of 2 goroutines x 1 call, (c) seeded random schedules of 3x1, 2x2 and 4 goroutines x <=3 calls x 3 keys; "
                        "distinct_nontrivial = distinct invocation/return histories validated by TLC" % (L, cap))
    run.cov["samples"] = [segs[len(segs) // 2][:12], (fsegs[len(fsegs) // 2][:6] if fsegs else [])]
    run.assumptions += ["sync/atomic and mutex operations are sequentially consistent (Go memory model)",
                        "K = V = int; at most 4 goroutines, 3 keys",
                        "data-race clause: decided by the Go race detector in the stress stage (c04 stress), not by TLC"]
    return finish(run)


def replay(run, rp):
    """Re-execute the stored program under the stored schedule (deterministic under the controlled scheduler) and re-validate."""
    if not rp.get("plan") or "progs" not in rp["plan"]:
        return check(run)
    hists, fines = run_programs(run, "syncmap", [rp["plan"]])
    segs, srcs = history_segments(hists)
    validate(run, "syncmap", "MapAbsTrace", dict(NK=3, NT=8), segs, [], plans=replay_plans(srcs), label="history")
    for r in run.rejections:
        r["fact"] = True
    run.cov.update(distinct_nontrivial=len(segs), rule="replay of one stored program and schedule")
    run.cov["samples"] = [segs[0][:12]] if segs else []
    return finish(run)
