"""C03 - set operations equal mathematical set algebra in both implementations (DESIGN.md section 7-C03)."""
import itertools
from ..core import *
from ..syncmap_common import *
from .c04 import mc_consts, MC_INV

CLAUSES = ["I_NoPanic", "I_Build", "I_Result", "I_Detached", "I_Bulk", "I_Product", "I_RangeStop", "I_Ctor", "I_StringTy"]
BIN = ["Union", "Intersect", "SetDiff", "SymDiff", "Clone", "AddSet", "RemoveSet", "Product"]


def subsets(u):
    return [list(c) for n in range(len(u) + 1) for c in itertools.combinations(u, n)]


def run_sets(run, plan):
    """Run the scenarios; a scenario during which the process dies (a Go fatal error cannot be recovered: e.g. unbounded
    recursion) is pinned down by running the following scenarios one by one, recorded as a crash, and the rest is resumed."""
    evs, i = [], 0
    while i < len(plan):
        part, rc, err = run_driver(run, "sets", plan[i:], timeout=3000, allow_fail=True)
        evs += part
        i += len(part)
        if rc == 0:
            break
        msg = next((ln.strip() for ln in err.splitlines() if ln.startswith(("fatal error:", "panic:", "runtime:"))), "")
        if not msg:
            raise Inconclusive("sets driver failed rc=%d: %s" % (rc, err[-1200:]))
        while i < len(plan):
            one, rc1, err1 = run_driver(run, "sets", [plan[i]], timeout=600, allow_fail=True)
            if rc1 != 0:
                crash_rejection(run, "sets", msg, [plan[i]])
                evs.append(None)
                i += 1
                break
            evs += one
            i += 1
    return evs


def check(run):
    q = run.quick()
    nu = 3
    U = list(range(1, nu + 1))
    mc = model_check(run, "sets", "Sets", dict(U=tla_set(U if q else U + [4])), invariants=["AlgebraOK"], edges=True,
                     label="all pairs of subsets")
    # the concurrent set's storage layouts: SyncMap.tla run by one goroutine with the calls the set wrappers make
    model_check(run, "syncmap", "SyncMap", dict(Threads="{}", Keys=tla_set(U), MaxE=8, OpKinds='{"Load","LoadOrStore","LoadAndDelete","Range"}',
                                                  NOps=0, SetupLen=3 if q else 4), invariants=MC_INV, label="sequential set calls over 3 values")
    # ---- construction histories of the concurrent set, grouped by the internal layout they build ----
    L = 3 if q else 4
    calls = [dict(op=o, k=k, v=0, s=[]) for o in ("Add", "Remove", "Has") for k in U] + [dict(op="Len", k=0, v=0, s=[])]
    hs0 = [list(h) for n in range(0, L + 1) for h in itertools.product(calls, repeat=n)]
    # ... also after a NewSetFromSlice-style prefix of Adds (longer histories at the price of three prefixes)
    pre = [[], [dict(op="Add", k=1, v=0, s=[])], [dict(op="Add", k=1, v=0, s=[]), dict(op="Add", k=2, v=0, s=[])]]
    hs = [p + h for p in pre for h in hs0]
    progs = [dict(setup=h, progs=[], mode="schedule", n=1, seed=1, fine=1, schedule=[], keys=U, preempt=0) for h in hs]
    _, fines = run_programs(run, "syncset", progs)
    layouts = {}
    for h, f in zip(hs, fines):
        last = f[-1]
        key = json.dumps([last["r"], last["d"], last["am"], last["dn"], last["ms"]])
        if key not in layouts or len(h) < len(layouts[key]):
            layouts[key] = h
    lay = sorted(layouts.values(), key=lambda h: (len(h), json.dumps(h)))
    operands = [dict(kind="maps", init=s, hist=[]) for s in subsets(U)]
    operands += [dict(kind="sync2", init=[], hist=[dict(op=c["op"], k=c["k"]) for c in h]) for h in lay]
    operands += [dict(kind="sync2", init=s, hist=[]) for s in subsets(U)]        # built by NewSetFromSlice
    operands += [dict(kind="maps", init=s, hist=[dict(op="Remove", k=s[0]), dict(op="Add", k=s[0])]) for s in subsets(U) if s]
    # ---- scenarios: every ordered pair of operands (all four pairings of implementations, A and B the same object included) ----
    pairs = [(a, b, False) for a in operands for b in operands] + [(a, a, True) for a in operands]
    if q:
        pairs = run.rng.sample(pairs, min(len(pairs), 1500)) + [(a, a, True) for a in operands[::3]]
    plan = []
    for i, (a, b, same) in enumerate(pairs):
        ops = BIN if not q else run.rng.sample(BIN, 4)
        for op in ops:
            # every other scenario is "blind": the operands are not observed before the call (an observation enumerates a concurrent
            # set and promotes its dirty map, so the call would only ever meet tidy layouts); their contents come from twins
            plan.append(dict(nu=nu, a=a, b=b, same=same, op=op, px=run.rng.choice(U), py=run.rng.choice(U), blind=(i % 2 == 1)))
    for a in operands:
        for n in range(0, nu + 2):
            plan.append(dict(nu=nu, a=a, b=a, same=True, op="RangeStop", n=n, px=1, py=1))
            plan.append(dict(nu=nu, a=a, b=a, same=True, op="RangeStop", n=n, px=1, py=1, blind=True))
    for ctor in ("maps.Slice", "sync2.Slice", "maps.Keys", "sync2.Keys", "maps.Values", "sync2.Values"):
        for vals in [[], [1], [2, 2], [1, 2, 3], [3, 1, 3, 1], [2, 2, 2, 1]]:
            plan.append(dict(nu=nu, op="Ctor", ctor=ctor, vals=vals, px=1, py=1, same=False))
    # String() on other element types (arrays, strings holding brackets, pointers, the empty string), every member order accepted
    for kind in ("maps", "sync2"):
        for ety in ("int", "arr", "bstr", "ptr", "str"):
            for vals in ([], [0], [3], [1, 2], [0, 5], [1, 2, 3], [5, 3, 0], [7, 8, 9, 4]):
                if ety == "ptr" and len(vals) != len(set(vals)):
                    continue
                plan.append(dict(nu=nu, op="StringTy", kind=kind, ety=ety, vals=vals, px=1, py=1, same=False))
    # larger universes: operands of very different sizes (walk-the-smaller-operand shortcuts), disjoint, nested, equal, empty
    for nu2 in ((9, 40, 300) if q else (9, 40, 300, 1500)):
        U2 = list(range(1, nu2 + 1))
        half = run.rng.sample(U2, nu2 // 2)
        subs = [[], [1], [nu2], U2, U2[::2], U2[1::2], U2[: nu2 // 3], U2[-(nu2 // 3):], sorted(half), sorted(run.rng.sample(U2, nu2 // 2)),
                sorted(run.rng.sample(U2, 3)), U2[:-1]]
        ops2 = [dict(kind=k, init=sub, hist=[]) for k in ("maps", "sync2") for sub in subs]
        ops2 += [dict(kind="sync2", init=U2, hist=[dict(op="Remove", k=v) for v in U2[: nu2 // 2]] + [dict(op="Len", k=0)] + [dict(op="Add", k=nu2)])]
        pairs2 = [(a, b) for a in ops2 for b in ops2]
        for a, b in (pairs2 if not q and nu2 <= 300 else run.rng.sample(pairs2, 90 if nu2 <= 40 else 45)):
            for op in run.rng.sample(BIN[:-1], 3):
                plan.append(dict(nu=nu2, a=a, b=b, same=False, op=op, px=run.rng.choice(U2), py=run.rng.choice(U2)))
        for a in ops2[:4]:
            plan.append(dict(nu=nu2, a=a, b=a, same=True, op="Union", px=1, py=2))
            plan.append(dict(nu=nu2, a=a, b=a, same=True, op="SymDiff", px=1, py=2))
    evs = run_sets(run, plan)
    if len(evs) != len(plan):
        raise Inconclusive("driver returned %d events for %d scenarios" % (len(evs), len(plan)))
    plan = [p for p, e in zip(plan, evs) if e is not None]
    evs = [e for e in evs if e is not None]
    segs = [[e] for e in evs]
    validate(run, "sets", "SetsAbsTrace", {}, segs, CLAUSES, plans=[[p] for p in plan])
    run.cov.update(layouts=len(lay), operands=len(operands), scenarios=len(plan), exhaustive=not q,
                   distinct_nontrivial=distinct_count(segs, lambda s: True),
                   rule="scenario = (operand A, operand B, operation); operands = every subset of {1,2,3} as a map-backed set, as a concurrent "
                        "set built by NewSetFromSlice, and one concurrent set per distinct internal layout reachable by <= %d Add/Remove/Has/Len "
                        "calls (%d layouts); every ordered pair incl. A = B as the same object (quick: 1500 sampled pairs x 4 operations); "
                        "plus Range with every stop index and every constructor; plus universes of 9, 40, 300 (thorough 1500) values with "
                        "empty / singleton / full / half / third / 3-element operands in both implementations (sampled pairs x 3 operations)" % (L, len(lay)))
    e0 = evs[len(evs) // 2]
    run.cov["samples"] = [{k: e0[k] for k in ("op", "same", "a", "b", "rv", "px", "py")}, {"a0": e0["a0"], "b0": e0["b0"], "r1": e0["r1"]}]
    run.assumptions += ["value type int, universe {1,2,3}", "String() checked only for sets with at most one member (enumeration order is free)"]
    def reexec(rej):
        return run_driver(run, "sets", rej["plan"])
    return finish(run, reexec=reexec)


def replay(run, rp):
    evs = [e for e in run_sets(run, rp["plan"]) if e is not None]
    validate(run, "sets", "SetsAbsTrace", {}, [[e] for e in evs], CLAUSES, plans=[rp["plan"]])
    return finish(run, reexec=lambda rej: run_driver(run, "sets", rej["plan"]))
