"""C20 - numeric and utility helpers over the whole value range (DESIGN.md section 7-C20)."""
from ..core import *

CLAUSES = ["I_NoPanic", "I_FloatSum", "I_MinMax", "I_SumProd", "I_Compare", "I_ClampRank", "I_Table", "I_Point", "I_Util"]
FNS1 = ["Digits10", "DigitsSign10", "Abs", "Clamp01"]


def execute(run, plans):
    evs = run_driver(run, "num", plans, timeout=3000)
    return evs


def boundary(bits, signed, rng=None):
    hi = 2 ** (bits - 1) - 1 if signed else 2 ** bits - 1
    lo = -2 ** (bits - 1) if signed else 0
    pts = {0, 1, 2, 9, 10, 11, 99, 100, 101, hi, hi - 1, lo, lo + 1}
    k = 1
    while 10 ** k <= hi:
        pts |= {10 ** k - 1, 10 ** k, 10 ** k + 1, 3 * 10 ** k, 5 * 10 ** k}
        if rng is not None:      # values strictly inside every decimal length, not only at its ends
            pts |= {rng.randint(10 ** k, min(hi, 10 ** (k + 1) - 1)) for _ in range(3)}
        k += 1
    for j in range(1, bits):     # binary boundaries: truncation to a narrower width shows up around powers of two
        pts |= {2 ** j - 1, 2 ** j, 2 ** j + 1}
    pts = {p for p in pts if p <= hi}
    if signed:
        pts |= {-p for p in list(pts) if -p >= lo}
    return sorted(p for p in pts if lo <= p <= hi)


def check(run):
    q = run.quick()
    mcs = [model_check(run, "num", "NumMC", dict(Bits=8, BFull="TRUE"),
                       invariants=["MinMaxOK", "WrapOK", "ClampOK", "DigitsAgree", "BigOK"], label="8-bit pairs"),
           ]
    if not q:
        mcs.append(model_check(run, "num", "NumMC", dict(Bits=16, BFull="FALSE"),
                               invariants=["MinMaxOK", "WrapOK", "ClampOK", "DigitsAgree", "BigOK"], label="16-bit values"))
    plan = []
    i8, u8 = list(range(-128, 128)), list(range(0, 256))
    samp8 = [-128, -127, -100, -10, -2, -1, 0, 1, 2, 9, 10, 11, 99, 100, 126, 127]
    sampu8 = [0, 1, 2, 9, 10, 15, 16, 17, 99, 100, 127, 128, 200, 254, 255]
    # (i) 8-bit: all pairs (thorough) / all a x boundary b (quick)
    plan.append(dict(op="pairs", ty="int8", **{"as": i8, "bs": samp8 if q else i8}))
    plan.append(dict(op="pairs", ty="uint8", **{"as": u8, "bs": sampu8 if q else u8}))
    plan.append(dict(op="pairs", ty="int16", **{"as": boundary(16, True), "bs": [-32768, -181, -1, 0, 1, 2, 181, 32767]}))
    for ty, dom in (("int8", samp8), ("uint8", sampu8), ("int16", [-32768, -1, 0, 1, 7, 32767]), ("uint16", [0, 1, 2, 255, 256, 32767])):
        plan.append(dict(op="vari", ty=ty, v=[]))
        for a in dom:
            plan.append(dict(op="vari", ty=ty, v=[a]))
        for _ in range(30 if q else 400):
            plan.append(dict(op="vari", ty=ty, v=[run.rng.choice(dom) for _ in range(3)]))
    # Clamp over all triples of the 8-bit types as run tables (every lo <= hi thorough, sampled quick)
    for ty, dom in (("int8", i8), ("uint8", u8)):
        los = dom if not q else [dom[0], dom[1], dom[len(dom) // 2 - 1], dom[len(dom) // 2], dom[-2], dom[-1]] + run.rng.sample(dom, 6)
        for lo in los:
            his = [h for h in dom if h >= lo]
            if q:
                his = sorted(set([lo, his[-1]] + run.rng.sample(his, min(4, len(his)))))
            for hi in his:
                plan.append(dict(op="table", fn="Clamp", ty=ty, lo=lo, hi=hi))
    for ty in ("int16", "uint16"):
        for _ in range(6 if q else 200):
            lo = run.rng.randint(-32768 if ty == "int16" else 0, 32767 if ty == "int16" else 65535)
            hi = run.rng.randint(lo, 32767 if ty == "int16" else 65535)
            plan.append(dict(op="table", fn="Clamp", ty=ty, lo=lo, hi=hi))
    # (ii) single-argument functions over every value of the 8/16-bit (and, thorough, 32-bit) types
    for ty in ["int8", "uint8", "int16", "uint16"] + ([] if q else ["int32", "uint32"]):
        for fn in FNS1:
            plan.append(dict(op="table", fn=fn, ty=ty, lo=0, hi=0))
    # (iii) boundary-dense samples of the wide types
    for ty, bits, sg in (("int32", 32, True), ("uint32", 32, False), ("int64", 64, True), ("uint64", 64, False),
                         ("int", 64, True), ("uint", 64, False), ("uintptr", 64, False)):
        pts = boundary(bits, sg, run.rng)
        for fn in FNS1:
            for v in pts:
                plan.append(dict(op="point", fn=fn, ty=ty, v=str(v), lo="0", hi="0"))
        for _ in range(20 if q else 300):
            lo = run.rng.choice(pts)
            hi = run.rng.choice([p for p in pts if p >= lo])
            plan.append(dict(op="point", fn="Clamp", ty=ty, v=str(run.rng.choice(pts)), lo=str(lo), hi=str(hi)))
    # (iv)/(v) floats and strings through order-embedded samples
    for ty, n in (("float64", 13), ("float32", 13), ("string", 5), ("int", 12), ("int64", 12), ("int32", 12), ("uint", 10), ("uint64", 10)):
        tr = [(a, b, c) for a in range(n) for b in range(n) for c in range(n)]
        if q:
            tr = run.rng.sample(tr, 300 if n > 5 else 125)
        for a, b, c in tr:
            plan.append(dict(op="rank", ty=ty, a=a, b=b, c=c))
    # floating / complex Sum and Product: argument lists of every length 0..8 over values whose sums round, cancel or overflow
    for ty in ("float64", "float32", "complex128"):
        for n in range(0, 3):
            import itertools
            for v in itertools.product(range(14), repeat=n):
                plan.append(dict(op="fsum", ty=ty, v=list(v)))
        for _ in range(150 if q else 3000):
            plan.append(dict(op="fsum", ty=ty, v=[run.rng.randrange(14) for _ in range(run.rng.randint(3, 9))]))
    # (vi) language-level helpers
    U = lambda name, kind="", v=(), cond=False: dict(op="util", name=name, kind=kind, v=list(v), cond=cond)
    for v in ([], [0], [0, 0], [3], [0, 3], [0, 0, 4, 5], [6, 0, 7], [0, 8, 0]):
        plan += [U("Coal", "int", v), U("Coal", "string", v)]
    for v in ([7], [0, 7], [7, 3], [0, 7, 0, 3], [0, 0], [3, 7]):      # 7: the value whose IsZero method answers true
        plan.append(U("Coal", "zeroer", v))
    for cond in (True, False):
        plan += [U("Tern", v=[1, 2], cond=cond), U("TernCast", v=[1, 2], cond=cond)]
    plan += [U("Zero"), U("ZeroOf", v=[5])]
    plan += [U("IsZero", "int", [0]), U("IsZero", "int", [5]), U("IsZero", "string", [0]), U("IsZero", "string", [1]),
             U("IsZero", "zeroer-true", [7]), U("IsZero", "zeroer-false", [3]), U("IsZero", "zeroer-zero", [0]), U("IsZero", "nilptr-zeroer", [0]),
             U("IsZero", "ptr-zeroer", [7])]
    plan += [U("RefDeref", v=[5]), U("RefDeref", v=[0]), U("DerefZero", "nil", [9]), U("DerefZero", "ptr", [9])]
    plan += [U("IsNil", k) for k in ("nil-any", "nil-error", "typed-nil-in-any", "value-in-any", "error-value")]
    evs = execute(run, plan)
    segs = [[e] for e in evs]
    validate(run, "num", "NumAbsTrace", {}, segs, CLAUSES, plans=None, chunk_events=max(500, len(segs) // 14 + 1))
    ntab = sum(1 for e in evs if e["op"] == "table")
    run.cov.update(exhaustive=not q, distinct_nontrivial=distinct_count(segs, lambda s: True),
                   tables=ntab, table_runs=sum(len(e.get("runs") or []) for e in evs if e["op"] == "table"),
                   rule="lines = all pairs of int8/uint8 values (quick: every a x boundary b) for Min/Max/Sum/Product/Compare/Less; "
                        "Clamp(.,lo,hi) over the whole type as run tables; Digits10/DigitsSign10/Abs/Clamp01 over EVERY value of the "
                        "8/16-bit (thorough: 32-bit) types as lossless run tables; boundary-dense points of the 32/64-bit types; "
                        "order-embedded float/string samples; utility table. distinct = distinct recorded lines")
    small = [e for e in evs if e["op"] == "table" and e["fn"] == "Digits10" and e["ty"] == "int16"]
    run.cov["samples"] = [evs[300], small[0] if small else evs[-1]]
    run.assumptions += ["the run builder (harness/cmd/driver/num.go, runB) is lossless: trusted, 40 lines",
                        "floats: order-based helpers through exactly representable order-embedded samples; Sum/Product against the left-to-right fold with "
                        "the built-in operators (bit-identical), NaN excluded as in the property",
                        "decimal formatting of 64-bit values by strconv is the trace encoding"]
    # re-execution of a single rejected line: the line's own plan is not tracked (plans expand), so re-run everything once
    def reexec(rej):
        return None
    for r in run.rejections:
        r["fact"] = True   # deterministic pure functions: the recorded line is the execution
        e = r["segment"][-1]
        r["cls"] = "%s/%s" % (e.get("fn", e.get("name", "")), e.get("ty", e.get("kind", "")))
    return finish(run)


def replay(run, rp):
    return check(run)
