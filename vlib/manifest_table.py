ALL = ["C%02d" % i for i in range(1, 21)]
HOOK_COMMITS = ["6829243", "55a568d", "8696d6d", "0fd8bc7"]
NOTES = ("Every check: TLC model-checks the implementation-level TLA+ module (spec/<component>), its state graph or "
         "simulated behaviours drive the real code built from /repo's working tree (-tags verif), and TLC validates the "
         "recorded trace against the abstract module; only that validation produces VIOLATION verdicts. See DESIGN.md.")
NOT_APPLICABLE = {}
SEQ_NOTE = ("trusted: TLC, the Go driver (records API results verbatim, no oracle), the JSON trace encoding; "
            "bounds stated in evidence; element type int plus the further element types named in the evidence (strings, floats with "
            "negative zero, zero-size, uncomparable, pointers) mapped to ids in the trace")
CHECKS = {
    "C16": dict(text="TLC enumerates every interleaving of Enqueue/Dequeue/Peek (Push/Pop/Peek) over 3-4 values up to length 4-6 "
                     "on Queue.tla and checks FIFO/LIFO refinement; a transition tour executes every model edge on the real "
                     "containers and TLC validates every recorded step (result, Len, Peek) against the abstract sequence; "
                     "seeded long interleavings, saw-tooth fills to 1100-5000, fill/drain/probe-empty/reuse cycles at every fill count, and "
                     "zero-size / 200-byte / string elements extend beyond the bounds.",
                ref="7-C16", note=SEQ_NOTE, technique="TLA+ model + TLC state-graph tour replay + TLC trace validation"),
}
TECH = "TLA+ model checked by TLC + TLC state-graph tour replayed into the real code + TLC trace validation against the abstract module"
TECH_CASES = "TLA+ definitions/transcription checked by TLC over the bounded input space + TLC-enumerated cases run on the real code + TLC trace validation"
CHECKS.update({
    "C01": dict(text="AVL.tla transcribes avl.go (add/remove/popLeftMost/rotations/find/Clone); TLC checks sortedness, multiset, Len, Contains, "
                     "Remove(absent) no-op over every history within bounds (every tree shape); the tour runs every model transition on the real "
                     "tree (int/string/struct elements) and TLC validates every recorded step (three traversals consistent with one tree, in-order = "
                     "multiset, Len, Contains over the universe, Remove result, String, clone independence) against the multiset model; generated "
                     "histories to n=2047, clones of trees up to 20000 nodes, Fibonacci-shaped (sparsest) trees, many copies of few values, "
                     "three sharing trees and look-up/change/look-up triples extend the bounds.", ref="7-C01", note=SEQ_NOTE, technique=TECH),
    "C02": dict(text="Same model and traces as C01; decided by the balance clause: TLC reconstructs from the recorded pre-/in-order a binary tree "
                     "and requires it to be AVL-balanced after every Add/Remove; model-level invariant InvBalanced (cached heights = real heights, "
                     "|bf|<=1) over every reachable shape; sorted/zig-zag/organ-pipe/delete-heavy generated histories to n=2047.",
                ref="7-C02", note=SEQ_NOTE, technique=TECH),
    "C07": dict(text="Sorted.tla (sort.Search bisection transcribed, splice insert/remove) checked by TLC for ascending, descending and a weak key-only "
                     "order; tour over every initial slice and call incl. absent values and out-of-range positions; validator checks sortedness, exact "
                     "multiset steps, index results for total orders, panics, input-slice non-aliasing; plus structured and large (to 3000) NewSorted "
                     "inputs, saw-tooth growth, look-up/change/look-up triples.", ref="7-C07", note=SEQ_NOTE, technique=TECH),
    "C08": dict(text="Array2D.tla models the backing slice, index function, row/span windows, Fill and Clone for every shape 0..4 x 0..4; TLC checks "
                     "refinement to a grid of independent cells (index injectivity); the tour executes every call with every coordinate in/out of "
                     "bounds, every rectangle, every jagged input; validator checks the whole grid, held window, clone, panics, String after each call; "
                     "plus 64-bit extreme coordinates, large / lopsided shapes, string / float / slice / pointer elements.",
                ref="7-C08", note=SEQ_NOTE, technique=TECH),
    "C11": dict(text="Bimap.tla transcribes Add's two stale-entry deletions over two bimap values; TLC checks forward/reverse inverse and refinement "
                     "to a pair set over all pairs of partial bijections; tour executes every edge; validator checks the full lookup tables in both "
                     "directions, Len, Range, clone independence after every call; plus bimaps of 129-1100 pairs, single look-ups between changes, "
                     "Range callbacks that change the bimap.", ref="7-C11", note=SEQ_NOTE, technique=TECH),
    "C12": dict(text="Splice.tla transcribes Insert/InsertSlice/Remove/RemoveSlice/Fill/Reverse/Grow over a Go slice heap model (append in place vs "
                     "reallocating, memmove copy, doubling fill); TLC proves transcription = splice definition for every length, spare capacity, "
                     "position, count in bounds and enumerates the cells; every cell and seeded larger cases run on the real helpers and TLC validates "
                     "contents and non-aliasing of Concat/Clone (neighbouring views included); short contents in large backing arrays; float / slice / "
                     "struct / string / odd-sized elements. Bounded-exhaustive input space, no history dimension.",
                ref="7-C12", note=SEQ_NOTE, technique=TECH_CASES),
    "C13": dict(text="Partition.tla transcribes the chunk/window/pair index arithmetic; TLC checks it against the statement's characterisation for every "
                     "(n,size) and enumerates the cells; real results and callback sequences validated by TLC. Bounded-exhaustive input space.",
                ref="7-C13", note=SEQ_NOTE, technique=TECH_CASES),
    "C14": dict(text="FuncDefs.tla holds the reference definitions; Functional.tla enumerates every (helper, slice over {1,2,3}, callback parameter) cell "
                     "and checks the loop transcriptions of Fold/FoldReverse/GroupBy against them; every cell runs on the real helpers; TLC validates "
                     "result, input unmodified, and freshness probes (mutate result / mutate input); plus byte/string elements, nil inputs, stateful "
                     "callbacks, non-transitive / non-symmetric comparisons, float64 map keys incl. NaN (one known finding: maps.Clear).", ref="7-C14", note=SEQ_NOTE, technique=TECH_CASES),
    "C15": dict(text="SortSearch.tla transcribes the sort adaptors (Less/Swap, sort.Reverse, stable insertion) and sort.Search; TLC checks permutation, "
                     "order, stability and lower-bound clauses for all key sequences in bounds; cells + seeded inputs past Go's algorithm thresholds "
                     "run on the real helpers and are validated by TLC; plus structured inputs, every search target up to length 25-69, 8-bit / float / "
                     "string (NUL-suffixed) elements, and sorts of 2049-20001 elements checked through a lossless run encoding.", ref="7-C15", note=SEQ_NOTE, technique=TECH_CASES),
    "C20": dict(text="Num.tla defines the helpers over integers with fixed-width wrap and, for the wide types, over decimal digit sequences (Big.tla); "
                     "the real functions are run on all int8/uint8 pairs, on EVERY 8/16-bit (thorough: 32-bit) value through lossless run tables that TLC "
                     "proves equal to the piecewise definition, on boundary-dense 64-bit points and order-embedded float/string samples.",
                ref="7-C20", note="trusted: TLC, the run builder (40 lines of Go), strconv as number encoding; floats only via exactly representable "
                                  "order-embedded samples; NaN excluded", technique="TLA+ definitions + TLC trace validation of exhaustive tables/pairs (exploration of the value range)"),
})

CONC_NOTE = ("trusted: TLC; the controlled scheduler (harness/cmd/driver/sched.go) which releases one goroutine at a time between the verif "
             "hooks in sync2 (add-only, build tag verif); Go's sync/atomic and mutexes are sequentially consistent; histories are recorded "
             "verbatim and identical ones validated once; data-race clause decided by the Go race detector on free-running goroutines")
TECH_CONC = ("TLA+ model of the atomic steps checked by TLC (linearizability monitor) + hook-level schedules (DFS / bounded preemption / random) "
             "of the real goroutines + TLC validation of every distinct history against the abstract module + fine-trace conformance to the model")
CHECKS.update({
    "C03": dict(text="Sets.tla checks the code's composition of the set operations against set algebra for every pair of subsets; the concurrent "
                     "set's internal layouts are enumerated by running every construction history of <= 3-4 calls on the real set and grouping by "
                     "the projected read/dirty/expunged state (SyncMap.tla is the model of those layouts); every ordered operand pair in all four "
                     "implementation pairings (A = B included) x every operation runs on the real sets and TLC validates result, operands "
                     "unchanged, detachment probes, counts, Range stop, CartesianProduct and constructors.",
                ref="7-C03", note=SEQ_NOTE, technique=TECH),
    "C04": dict(text="SyncMap.tla transcribes sync2/map.go step by step (one action per atomic/mutex operation = one verif hook site) with an "
                     "on-line linearizability monitor incl. non-atomic Range; TLC checks it for 2x1, 2x2, 3x1 goroutines x calls from every set-up "
                     "layout. Real goroutines are stepped hook by hook: every single-goroutine call sequence <= 3-4, every <=2-3-preemption (thorough: "
                     "full DFS) schedule of two calls from every distinct layout, random 3x1/2x2/4-goroutine schedules, free-running stress. TLC "
                     "decides linearizability of every distinct real history (Map_Abs) and checks every fine trace step against the model. "
                     "Set-ups are one history per value-blind internal layout, closed breadth-first (23 layouts); one-against-two programs incl. a "
                     "brand-new third key; liveness of the model (every call returns under fair scheduling) is checked too.",
                ref="7-C04", note=CONC_NOTE, technique=TECH_CONC),
    "C05": dict(text="As C04 with the set wrappers: TLC validates every distinct real history of Add/Remove/Has/AddSet/RemoveSet/Len from hook-level "
                     "schedules (2 goroutines exhaustively within the preemption bound, 3-8 goroutines random) against an atomic-set model in which "
                     "AddSet/RemoveSet are one atomic element operation per member; SyncMap.tla restricted to the calls the wrappers make is model-"
                     "checked deeper (2x2, 3x1 with set-up <= 3). Set-ups: one history per internal layout of the closure (23).", ref="7-C05", note=CONC_NOTE, technique=TECH_CONC),
    "C09": dict(text="KeyedLock.tla (atomic per-key lookup + mutex objects) is model-checked for exclusion, independence and non-blocking Try (and its "
                     "check-then-act variant is shown to fail); real KeyedMutex/KeyedRWMutex goroutines are stepped hook by hook through every "
                     "bounded-preemption schedule of two critical sections on a fresh or known key, through gated scenarios (one goroutine keeps "
                     "key 1 until the other finished on key 2 / finished its Try), and random 3-4 goroutine schedules; TLC validates every history "
                     "against the per-key lock model incl. the harness's own occupancy counter; a deadlock or process crash is a rejected history. "
                     "Free-running timelines (goroutines really queued inside the mutexes, 2 s progress watchdog) are validated by the same module: "
                     "only a blocking acquisition of a held or contended key may stay pending. The model carries sync.RWMutex's writer preference "
                     "and TLC checks liveness (every acquisition returns) under fairness, and that it fails without writer preference.",
                ref="7-C09", note=CONC_NOTE, technique=TECH_CONC),
})


CHECKS.update({
    "C06": dict(text="LinkedList.tla and Ring.tla transcribe the (forked) pointer algorithms statement by statement; TLC checks well-formedness and "
                     "refinement to sequences / cycles for every call with every combination of handles (live, foreign, removed, self-marks, a "
                     "list pushed onto itself, zero values, all counts); the tour runs every model transition on lists.* AND on container/list / "
                     "container/ring in lock step, and TLC validates that return values and full observations are equal at every step.",
                ref="7-C06", note=SEQ_NOTE + "; the installed Go toolchain's container/list and container/ring are the reference", technique=TECH),
    "C10": dict(text="PubSub.tla models subscriber list + RWMutex + channels + spawned sender goroutines + WaitGroup + timers; TLC checks no-panic, "
                     "at-most-once, wait-returns-after-hand-off, exactly-once-at-quiescence for 2 publishers x 2 subscribers x Pub/PubWait/PubSync, "
                     "timers on/off (and shows the pinned design panics). Scenario scripts drive the real PubSub (every variant, buffer sizes, "
                     "timeouts, Unsub under pending sends, WithOnly, UnsubAll, late subscribers, random mixes), each in crash-contained runs; TLC "
                     "validates every recorded trace against a monitor stating exactly the clauses of the property. Uncontrolled burst rounds "
                     "(simultaneous Unsubs; publishers racing for the last buffer slot under a timeout) are summarised per batch and validated too.",
                ref="7-C10", note="trusted: TLC; the scenario driver (records calls, received values, callbacks verbatim, flushes every line); quiescence "
                                  "read from goroutine states; internal sender scheduling is not controllable (any order is accepted by the monitor)",
                technique="TLA+ design model checked by TLC + scenario scripts on the real code + TLC trace validation against a monitor"),
    "C17": dict(text="Once.tla (sync.Once contract + the wrapper's store/read of the result fields) is model-checked for 3-4 callers; the real "
                     "Once1/2/3 are driven with gated actions: callers racing, callers arriving while the action is blocked (seen parked inside "
                     "sync.Once), callers after completion, under the race detector; TLC validates every trace: one start, by a passed function, "
                     "no return before completion, all returns equal that run's values and see its effect; callers passing nil; thousands of ungated "
                     "burst rounds on fresh values. Liveness (every Do returns) by TLC; thorough: an inductive invariant of the design discharged by "
                     "Apalache (unbounded behaviour length, 5 callers).",
                ref="7-C17", note="trusted: TLC, the gate-based driver; the winner among simultaneous callers cannot be forced", technique="TLA+ model checked by TLC + gated scenarios on the real code + TLC trace validation"),
    "C18": dict(level="model_checking",
                text="Register.tla's graph is toured on AtomicValue[int|string|struct] and TLC validates the sequential traces and free-running "
                     "concurrent histories as linearizable to one register; Pool.tla (avail/out tokens, arbitrary drops, and the per-call write of "
                     "pool.New as a named racy variant) is model-checked, real Get/Put histories over unique tokens are validated by TLC, and "
                     "both run under the Go race detector for the data-race clause. Thorough: an inductive invariant of the pool's hand-out discipline "
                     "discharged by Apalache (unbounded behaviour length, 4 goroutines, 6 items).",
                ref="7-C18", note="no hook points exist inside atomic.Value / sync.Pool: concurrent defects of the wrappers are found probabilistically; "
                                  "data-race clause decided by the Go race detector", technique="TLA+ models checked by TLC + tour / free-running histories of the real code + TLC trace validation + race detector"),
    "C19": dict(text="ChanHelpers.tla models the queued receivers' non-blocking loop and the timed helpers' two-way select over all orders of call "
                     "start / peer ready / timer-context firing, checking conservation; every capacity x fill x closed x limit cell and every "
                     "deadline-kind x peer-timing scenario runs on real channels and TLC validates results, remaining contents and peer receipts "
                     "(outcomes a race could decide either way are only checked for conservation).",
                ref="7-C19", note="trusted: TLC, the scenario driver; real timers, with demanded outcomes never depending on margins below 900ms",
                technique="TLA+ model checked by TLC + scenario cells on real channels + TLC trace validation"),
})

for k in ("C07", "C08", "C11"):
    CHECKS[k].setdefault("level", "model_checking")

