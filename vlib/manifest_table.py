ALL = ["C%02d" % i for i in range(1, 21)]
HOOK_COMMITS = []
NOTES = ("Every check: TLC model-checks the implementation-level TLA+ module (spec/<component>), its state graph or "
         "simulated behaviours drive the real code built from /repo's working tree (-tags verif), and TLC validates the "
         "recorded trace against the abstract module; only that validation produces VIOLATION verdicts. See DESIGN.md.")
NOT_APPLICABLE = {}
SEQ_NOTE = ("trusted: TLC, the Go driver (records API results verbatim, no oracle), the JSON trace encoding; "
            "bounds stated in evidence; element type int")
CHECKS = {
    "C16": dict(text="TLC enumerates every interleaving of Enqueue/Dequeue/Peek (Push/Pop/Peek) over 3-4 values up to length 4-6 "
                     "on Queue.tla and checks FIFO/LIFO refinement; a transition tour executes every model edge on the real "
                     "containers and TLC validates every recorded step (result, Len, Peek) against the abstract sequence; "
                     "seeded long interleavings extend beyond the bounds.",
                ref="7-C16", note=SEQ_NOTE, technique="TLA+ model + TLC state-graph tour replay + TLC trace validation"),
}
TECH = "TLA+ model checked by TLC + TLC state-graph tour replayed into the real code + TLC trace validation against the abstract module"
TECH_CASES = "TLA+ definitions/transcription checked by TLC over the bounded input space + TLC-enumerated cases run on the real code + TLC trace validation"
CHECKS.update({
    "C01": dict(text="AVL.tla transcribes avl.go (add/remove/popLeftMost/rotations/find/Clone); TLC checks sortedness, multiset, Len, Contains, "
                     "Remove(absent) no-op over every history within bounds (every tree shape); the tour runs every model transition on the real "
                     "tree (int/string/struct elements) and TLC validates every recorded step (three traversals consistent with one tree, in-order = "
                     "multiset, Len, Contains over the universe, Remove result, String, clone independence) against the multiset model; generated "
                     "histories to n=2047 extend the bounds.", ref="7-C01", note=SEQ_NOTE, technique=TECH),
    "C02": dict(text="Same model and traces as C01; decided by the balance clause: TLC reconstructs from the recorded pre-/in-order a binary tree "
                     "and requires it to be AVL-balanced after every Add/Remove; model-level invariant InvBalanced (cached heights = real heights, "
                     "|bf|<=1) over every reachable shape; sorted/zig-zag/organ-pipe/delete-heavy generated histories to n=2047.",
                ref="7-C02", note=SEQ_NOTE, technique=TECH),
    "C07": dict(text="Sorted.tla (sort.Search bisection transcribed, splice insert/remove) checked by TLC for ascending, descending and a weak key-only "
                     "order; tour over every initial slice and call incl. absent values and out-of-range positions; validator checks sortedness, exact "
                     "multiset steps, index results for total orders, panics, input-slice non-aliasing.", ref="7-C07", note=SEQ_NOTE, technique=TECH),
    "C08": dict(text="Array2D.tla models the backing slice, index function, row/span windows, Fill and Clone for every shape 0..4 x 0..4; TLC checks "
                     "refinement to a grid of independent cells (index injectivity); the tour executes every call with every coordinate in/out of "
                     "bounds, every rectangle, every jagged input; validator checks the whole grid, held window, clone, panics, String after each call.",
                ref="7-C08", note=SEQ_NOTE, technique=TECH),
    "C11": dict(text="Bimap.tla transcribes Add's two stale-entry deletions over two bimap values; TLC checks forward/reverse inverse and refinement "
                     "to a pair set over all pairs of partial bijections; tour executes every edge; validator checks the full lookup tables in both "
                     "directions, Len, Range, clone independence after every call.", ref="7-C11", note=SEQ_NOTE, technique=TECH),
    "C12": dict(text="Splice.tla transcribes Insert/InsertSlice/Remove/RemoveSlice/Fill/Reverse/Grow over a Go slice heap model (append in place vs "
                     "reallocating, memmove copy, doubling fill); TLC proves transcription = splice definition for every length, spare capacity, "
                     "position, count in bounds and enumerates the cells; every cell and seeded larger cases run on the real helpers and TLC validates "
                     "contents and non-aliasing of Concat/Clone. Bounded-exhaustive input space, no history dimension.",
                ref="7-C12", note=SEQ_NOTE, technique=TECH_CASES),
    "C13": dict(text="Partition.tla transcribes the chunk/window/pair index arithmetic; TLC checks it against the statement's characterisation for every "
                     "(n,size) and enumerates the cells; real results and callback sequences validated by TLC. Bounded-exhaustive input space.",
                ref="7-C13", note=SEQ_NOTE, technique=TECH_CASES),
    "C14": dict(text="FuncDefs.tla holds the reference definitions; Functional.tla enumerates every (helper, slice over {1,2,3}, callback parameter) cell "
                     "and checks the loop transcriptions of Fold/FoldReverse/GroupBy against them; every cell runs on the real helpers; TLC validates "
                     "result, input unmodified, and freshness probes (mutate result / mutate input).", ref="7-C14", note=SEQ_NOTE, technique=TECH_CASES),
    "C15": dict(text="SortSearch.tla transcribes the sort adaptors (Less/Swap, sort.Reverse, stable insertion) and sort.Search; TLC checks permutation, "
                     "order, stability and lower-bound clauses for all key sequences in bounds; cells + seeded inputs past Go's algorithm thresholds "
                     "run on the real helpers and are validated by TLC.", ref="7-C15", note=SEQ_NOTE, technique=TECH_CASES),
    "C20": dict(text="Num.tla defines the helpers over integers with fixed-width wrap and, for the wide types, over decimal digit sequences (Big.tla); "
                     "the real functions are run on all int8/uint8 pairs, on EVERY 8/16-bit (thorough: 32-bit) value through lossless run tables that TLC "
                     "proves equal to the piecewise definition, on boundary-dense 64-bit points and order-embedded float/string samples.",
                ref="7-C20", note="trusted: TLC, the run builder (40 lines of Go), strconv as number encoding; floats only via exactly representable "
                                  "order-embedded samples; NaN excluded", technique="TLA+ definitions + TLC trace validation of exhaustive tables/pairs (exploration of the value range)"),
})
for k in ("C07", "C08", "C11"):
    CHECKS[k].setdefault("level", "model_checking")

