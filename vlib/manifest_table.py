ALL = ["C%02d" % i for i in range(1, 21)]
HOOK_COMMITS = []
NOTES = ("Every check: TLC model-checks the implementation-level TLA+ module (spec/<component>), its state graph or "
         "simulated behaviours drive the real code built from /repo's working tree (-tags verif), and TLC validates the "
         "recorded trace against the abstract module; only that validation produces VIOLATION verdicts. See DESIGN.md.")
NOT_APPLICABLE = {}
SEQ_NOTE = ("trusted: TLC, the Go driver (records API results verbatim, no oracle), the JSON trace encoding; "
            "bounds stated in evidence; element type int")
CHECKS = {
    "C16": dict(text="TLC enumerates every interleaving of Enqueue/Dequeue/Peek (Push/Pop/Peek) over 3-4 values up to length 4-6 "
                     "on Queue.tla and checks FIFO/LIFO refinement; a transition tour executes every model edge on the real "
                     "containers and TLC validates every recorded step (result, Len, Peek) against the abstract sequence; "
                     "seeded long interleavings extend beyond the bounds.",
                ref="7-C16", note=SEQ_NOTE, technique="TLA+ model + TLC state-graph tour replay + TLC trace validation"),
}
