"""Shared by C01 and C02: one model (spec/avl/AVL.tla), one driver, one validator with two clause sets."""
from .core import *

C01_CLAUSES = ["I_NoPanic", "I_Ret", "I_Len", "I_Sorted", "I_Bag", "I_Has", "I_Consistent", "I_WalkSlice", "I_String", "I_Clone"]
C02_CLAUSES = ["I_Balanced"]


def execute(run, plans):
    return run_plans(run, "avl", plans)


def bounds(run):
    if run.quick():
        return [dict(Vals=tla_set(range(1, 6)), MaxMult=2, MaxSize=6, CloneMax=3, CloneOps=2, label="5 values x 2 copies, <= 6 nodes"),
                dict(Vals=tla_set(range(1, 8)), MaxMult=1, MaxSize=7, CloneMax=0, CloneOps=1, label="7 distinct values")]
    return [dict(Vals=tla_set(range(1, 6)), MaxMult=2, MaxSize=9, CloneMax=4, CloneOps=2, label="5 values x 2 copies, <= 9 nodes"),
            dict(Vals=tla_set(range(1, 11)), MaxMult=1, MaxSize=10, CloneMax=3, CloneOps=2, label="10 distinct values")]


def xlate(o):
    """Model call names (AVL.tla has the original and one clone) -> driver calls on trees 1..3."""
    o = dict(o)
    if o["op"] in ("Add2", "Remove2"):
        o.update(op=o["op"][:-1], w=2)
    elif o["op"] == "Clone":
        o.update(src=1, dst=2, w=1)
    else:
        o["w"] = 1
    return o


def tour_plans(run):
    plans, tours = [], []
    for b in bounds(run):
        consts = {k: v for k, v in b.items() if k != "label"}
        mc = model_check(run, "avl", "AVL", consts,
                         invariants=["InvSorted", "InvBag", "InvLen", "InvContains", "InvBalanced"],
                         properties=["RemoveAbsentNoOp"], edges=True, label=b["label"])
        nv = len(b["Vals"].split(","))
        paths, st = tour(mc["edges"], [[[], [], -1]], run.rng, max_len=24)
        st["bounds"] = b["label"]
        tours.append(st)
        for i, p in enumerate(paths):
            ty = ("int", "ordered", "string", "struct")[i % 4]
            plans.append([dict(op="Reset", nv=nv, ty=ty)] + [xlate(e["op"]) for e in p])
    return plans, tours


def gen_plans(run):
    """Seeded generators beyond the exhaustive bounds; ascending input is the classic degenerate case."""
    plans = []
    sizes = [15, 63, 255] if run.quick() else [15, 63, 255, 1023, 2047]

    def mk(n, seq, step):
        p = [dict(op="Reset", nv=n, ty="int")]
        for i, (op, v) in enumerate(seq):
            p.append(dict(op=op, arg=v, w=1, full=((i + 1) % step == 0 or i == len(seq) - 1)))
        return p
    for n in sizes:
        step = 1 if n <= 63 else max(1, n // 16)
        asc = [("Add", v) for v in range(1, n + 1)]
        desc = [("Add", v) for v in range(n, 0, -1)]
        zig = [("Add", v) for i in range(1, n + 1) for v in [(i + 1) // 2 if i % 2 else n + 1 - i // 2]]
        pipe = [("Add", v) for v in (list(range(1, n + 1, 2)) + list(range(n - (n % 2), 0, -2)))]
        plans += [mk(n, asc, step), mk(n, desc, step), mk(n, zig, step), mk(n, pipe, step)]
        # ascending fill, then delete from one end / from the middle outwards
        plans.append(mk(n, asc + [("Remove", v) for v in range(1, n + 1)], step))
        mid = sorted(range(1, n + 1), key=lambda v: abs(v - n // 2))
        plans.append(mk(n, asc + [("Remove", v) for v in mid], step))
    for j in range(6 if run.quick() else 40):
        n = run.rng.choice([31, 64, 200] if run.quick() else [31, 64, 200, 500])
        seq, present = [], []
        for i in range(n * 3):
            if present and run.rng.random() < 0.4:
                v = run.rng.choice(present) if run.rng.random() < 0.8 else run.rng.randint(1, n)
                seq.append(("Remove", v))
                if v in present:
                    present.remove(v)
            else:
                v = run.rng.randint(1, n)
                seq.append(("Add", v))
                present.append(v)
        plans.append(mk(n, seq, 1 if n <= 64 else 8))
    # three trees that share everything (two clones taken before any of them is modified), then every order of modifying two of them
    import itertools
    for src3 in (1, 2):
        for first, second in itertools.permutations((1, 2, 3), 2):
            for o1, o2 in itertools.product(("Add", "Remove"), repeat=2):
                p = [dict(op="Reset", nv=9, ty="int")] + [dict(op="Add", arg=v, w=1) for v in (4, 2, 6, 1, 3, 5, 7)]
                p += [dict(op="Clone", arg=0, src=1, dst=2, w=1), dict(op="Clone", arg=0, src=src3, dst=3, w=1)]
                p += [dict(op=o1, arg=8 if o1 == "Add" else 4, w=first), dict(op=o2, arg=9 if o2 == "Add" else 2, w=second),
                      dict(op="Remove", arg=4, w=second), dict(op="Add", arg=4, w=first)]
                plans.append(p)
    # three trees: clones of clones, every tree mutated after every other one was cloned from it (shared-state defects need >= 3)
    for j in range(10 if run.quick() else 150):
        nvv = 9
        p = [dict(op="Reset", nv=nvv, ty=("int", "string", "struct", "ordered")[j % 4])]
        live = [1]
        for i in range(run.rng.randint(12, 40)):
            r = run.rng.random()
            if r < 0.15 and len(live) < 3 or (i == 5 and len(live) == 1) or (i == 9 and len(live) == 2):
                dst = 2 if 2 not in live else 3
                p.append(dict(op="Clone", arg=0, src=run.rng.choice(live), dst=dst, w=1))
                live.append(dst)
            elif r < 0.2:
                p.append(dict(op="Clone", arg=0, src=run.rng.choice(live), dst=run.rng.choice([2, 3]), w=1))
                live = sorted(set(live + [p[-1]["dst"]]))
                if p[-1]["src"] == p[-1]["dst"]:
                    p.pop()
            elif r < 0.65:
                p.append(dict(op="Add", arg=run.rng.randint(1, nvv), w=run.rng.choice(live)))
            elif r < 0.95:
                p.append(dict(op="Remove", arg=run.rng.randint(1, nvv), w=run.rng.choice(live)))
            else:
                p.append(dict(op="Clear", arg=0, w=run.rng.choice(live)))
        plans.append(p)
    # the sparsest balanced trees (Fibonacci trees: depth about 1.44 log2 n), built without rotations by level-order insertion,
    # left-leaning and right-leaning; then every traversal, a clone, and changes on both
    def fib_tree(h, lean):
        if h < 0:
            return None
        a, b = fib_tree(h - 1, lean), fib_tree(h - 2, lean)
        return [a, b] if lean == "L" else [b, a]
    def number(t, nxt):
        if t is None:
            return None
        l = number(t[0], nxt)
        nxt[0] += 1
        k = nxt[0]
        r = number(t[1], nxt)
        return (l, k, r)
    for h in ((4, 7, 9, 13) if run.quick() else (4, 7, 9, 11, 13, 16)):
        for lean in ("L", "R"):
            t = number(fib_tree(h, lean), [0])
            order, level = [], [t]
            while level:
                order += [x[1] for x in level]
                level = [c for x in level for c in (x[0], x[2]) if c is not None]
            n = len(order)
            p = [dict(op="Reset", nv=n, ty="int")] + [dict(op="Add", arg=v, w=1, full=(i == n - 1)) for i, v in enumerate(order)]
            p += [dict(op="Clone", arg=0, src=1, dst=2, w=1, full=True), dict(op="Remove", arg=order[-1], w=2, full=True),
                  dict(op="Remove", arg=order[0], w=1, full=True), dict(op="Add", arg=order[-1], w=2, full=True)]
            plans.append(p)
    # "Clone works for a tree of any size": large trees built in ascending / seeded order, cloned, then both copies changed
    for n in ((255, 1000) if run.quick() else (255, 1000, 5000, 20000)):
        for order in ("asc", "rnd"):
            vals = list(range(1, n + 1))
            if order == "rnd":
                run.rng.shuffle(vals)
            p = [dict(op="Reset", nv=n, ty=("int" if order == "asc" else "ordered"))]
            p += [dict(op="Add", arg=v, w=1, full=False) for v in vals]
            p += [dict(op="Clone", arg=0, src=1, dst=2, w=1, full=(n <= 1000)), dict(op="Remove", arg=vals[0], w=1, full=False),
                  dict(op="Add", arg=vals[1], w=2, full=False), dict(op="Clone", arg=0, src=2, dst=3, w=1, full=False),
                  dict(op="Remove", arg=vals[2], w=3, full=(n <= 5000))]
            plans.append(p)
    # many copies of few values: every Add-only history over 3 (thorough: 4) values up to length 7, observed in full at the end and
    # after the last two steps; then seeded Add/Remove histories over 2-4 values (rotations carry equal values to both sides)
    nvd = 3 if run.quick() else 4
    for n in range(4, 8):
        for adds in itertools.product(range(1, nvd + 1), repeat=n):
            if max(adds.count(v) for v in set(adds)) < 3:
                continue        # (at most two copies of a value: covered by the tour)
            plans.append([dict(op="Reset", nv=nvd, ty="int")] + [dict(op="Add", arg=v, w=1, full=(i >= n - 2)) for i, v in enumerate(adds)])
    for j in range(30 if run.quick() else 600):
        nvv = run.rng.choice([2, 3, 4])
        p = [dict(op="Reset", nv=nvv, ty=("int", "string", "struct", "ordered")[j % 4])]
        size, cnt = 0, {}
        for i in range(run.rng.randint(10, 60)):
            # (at most 12 nodes: with many equal values the trees having given traversals multiply, and the validator enumerates them)
            v = run.rng.randint(1, nvv)
            if size < 12 and run.rng.random() < 0.65:
                p.append(dict(op="Add", arg=v, w=1))
                size, cnt[v] = size + 1, cnt.get(v, 0) + 1
            else:
                p.append(dict(op="Remove", arg=v, w=1))
                if cnt.get(v, 0) > 0:
                    size, cnt[v] = size - 1, cnt[v] - 1
        plans.append(p)
    # look-up, change, look-up (nothing observed in between but Len): whatever a tree may remember from Contains must not survive a change
    trip = []
    for n in range(0, 4):
        for adds in itertools.product((1, 2, 3), repeat=n):
            for x in (1, 2, 3):
                for m in [("Add", v) for v in (1, 2, 3)] + [("Remove", v) for v in (1, 2, 3)] + [("Clear", 0)]:
                    for q in [("Contains", v) for v in (1, 2, 3)] + [("Remove", v) for v in (1, 2, 3)]:
                        p = [dict(op="Reset", nv=3, ty="int")] + [dict(op="Add", arg=v, w=1, full=False) for v in adds]
                        p += [dict(op="Contains", arg=x, w=1, full=False), dict(op=m[0], arg=m[1], w=1, full=False),
                              dict(op=q[0], arg=q[1], w=1, full=False), dict(op="Contains", arg=q[1], w=1, full=True)]
                        trip.append(p)
    plans += trip if not run.quick() else run.rng.sample(trip, 700)
    return plans


def run_all(run, prop, clauses):
    plans, tours = tour_plans(run)
    nt = len(plans)
    plans += gen_plans(run)
    segs = execute(run, plans)
    if len(segs) != len(plans):
        raise Inconclusive("driver returned %d segments for %d plans" % (len(segs), len(plans)))
    crashed = [i for i, sg in enumerate(segs) if sg is None]
    conf = conformance([p for p, sg in zip(plans[:nt], segs[:nt]) if sg is not None], [sg for sg in segs[:nt] if sg is not None], ["ret", "xpre", "xpre2"])
    plans = [p for p, sg in zip(plans, segs) if sg is not None]
    segs = [sg for sg in segs if sg is not None]
    validate(run, "avl", "AVLAbsTrace", dict(Prop='"%s"' % prop), segs, clauses, plans=plans)
    run.cov.update(tour=tours, conformance=conf, generated_histories=len(plans) - nt,
                   exhaustive=all(t["edges_covered"] == t["edges_total"] for t in tours),
                   distinct_nontrivial=distinct_count(segs, lambda s: len(s) > 2),
                   rule="tour paths covering every edge of the TLC graph of AVL.tla (every reachable tree shape x every Add/Remove of "
                        "every value, present, absent or duplicate, Clear, Contains, Clone and mutations of original and clone), "
                        "element types int/string/struct, plus generated histories (ascending, descending, zig-zag, organ-pipe, "
                        "fill-then-delete, random) up to n=%d; non-trivial = >= 2 calls" % (255 if run.quick() else 2047))
    small = [s for s in segs if 4 <= len(s) <= 7]
    run.cov["samples"] = [[{k: (v if k != "t" else [{"pre": o["pre"], "ino": o["ino"], "len": o["len"]} for o in v[:1]]) for k, v in e.items()
                            if k not in ("xpre", "xpre2")} for e in (small[0] if small else segs[0])]]
    run.assumptions += ["comparators are total orders consistent with == (int <, string <, struct by key with pad derived from key)",
                        "with duplicate values the traversals do not determine the tree uniquely: a trace is accepted if SOME binary "
                        "tree consistent with them qualifies (never rejects a real tree)"]
    return finish(run, reexec=lambda rej: execute(run, [rej["plan"]])[0])


def replay_one(run, rp, prop, clauses):
    segs = [sg for sg in execute(run, [rp["plan"]]) if sg is not None]
    validate(run, "avl", "AVLAbsTrace", dict(Prop='"%s"' % prop), segs, clauses, plans=[rp["plan"]] * len(segs))
    return finish(run, reexec=lambda rej: execute(run, [rej["plan"]])[0])
