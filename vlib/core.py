"""Core machinery shared by all property checks.

Pipeline (DESIGN.md section 2):
  model_check()   TLC on the implementation-level module (invariants, refinement,
                  optional dump of every generated edge as JSON)
  tour()          transition tour of the dumped state graph -> plans
  build_driver()  go build of the harness against /repo's working tree (-tags verif)
  run_driver()    plans -> ndjson traces produced by the real code
  validate()      TLC trace validation against the abstract module (verdict)
  finish()        known-finding matching, replay files, evidence, exit code

Only python3 stdlib is used.
"""
import json, os, re, shutil, subprocess, sys, tempfile, time, hashlib, random, atexit
from concurrent.futures import ThreadPoolExecutor

ROOT = os.path.dirname(os.path.dirname(os.path.abspath(__file__)))
REPO = os.environ.get("VERIF_REPO", "/repo")
SPEC = os.path.join(ROOT, "spec")
HARNESS = os.path.join(ROOT, "harness")
CP = "/opt/veriftools/tla/tla2tools.jar:/opt/veriftools/tla/CommunityModules-deps.jar"
NCPU = os.cpu_count() or 4

GOENV = dict(GOFLAGS="-mod=mod", GOPROXY="off", GOSUMDB="off", GOTOOLCHAIN="local")


import threading
_TMP_LOCK = threading.Lock()


class Inconclusive(Exception):
    pass


def log(*a):
    print(*a, flush=True)


# ----------------------------------------------------------------------------
# Run context
# ----------------------------------------------------------------------------
class Run:
    def __init__(self, pid, tier, seed):
        self.pid, self.tier, self.seed = pid, tier, seed
        self.t0 = time.time()
        base = os.environ.get("VERIF_SCRATCH") or tempfile.gettempdir()
        self.scratch = tempfile.mkdtemp(prefix="verif-%s-" % pid, dir=base)
        self.keep = bool(os.environ.get("VERIF_KEEP"))
        atexit.register(self.cleanup)
        self.specdir = os.path.join(self.scratch, "spec")
        shutil.copytree(SPEC, self.specdir)
        self.rng = random.Random(seed * 7919 + 13)
        self.cov = dict(states=0, transitions=0, traces_validated_against_impl=0,
                        evaluations=0, distinct_nontrivial=0, samples=[], model_checks=[],
                        exhaustive=False)
        self.assumptions = []
        self.rejections = []      # dicts: clause, segment(list of events), plan, line, validator
        self.notes = []
        self.driver = None
        self._n = 0

    def cleanup(self):
        if not self.keep:
            shutil.rmtree(self.scratch, ignore_errors=True)

    def tmp(self, name):
        with _TMP_LOCK:
            self._n += 1
            n = self._n
        return os.path.join(self.scratch, "%04d-%s" % (n, name))

    def quick(self):
        return self.tier == "quick"


# ----------------------------------------------------------------------------
# TLC
# ----------------------------------------------------------------------------
def tlc(run, module_dir, module, cfg_text, workers=None, extra=(), env=None, timeout=3600, simulate=None):
    """Run TLC on <module_dir>/<module>.tla with the given config text. Returns (rc, output)."""
    with _TMP_LOCK:
        run._n += 1
        cfgp = os.path.join(module_dir, "%s_%d.cfg" % (module, run._n))
    with open(cfgp, "w") as f:
        f.write(cfg_text)
    meta = run.tmp("meta")
    heap = os.environ.get("VERIF_TLC_HEAP", "12g")
    cmd = ["java", "-Xss512m", "-Xmx" + heap, "-XX:+UseParallelGC",
           "-DTLA-Library=" + os.path.join(run.specdir, "lib"), "-cp", CP, "tlc2.TLC",
           "-metadir", meta, "-config", cfgp, "-workers", str(workers or NCPU), "-noGenerateSpecTE"]
    if simulate:
        cmd += ["-simulate", simulate]
    cmd += list(extra) + [module + ".tla"]
    e = dict(os.environ)
    e.pop("JAVA_TOOL_OPTIONS", None)
    if env:
        e.update(env)
    try:
        p = subprocess.run(cmd, cwd=module_dir, env=e, stdout=subprocess.PIPE, stderr=subprocess.STDOUT,
                           timeout=timeout, text=True, errors="replace")
        rc, out = p.returncode, p.stdout
    except subprocess.TimeoutExpired as ex:
        out = ex.stdout or ""
        if isinstance(out, bytes):
            out = out.decode("utf8", "replace")
        rc = 124
    shutil.rmtree(meta, ignore_errors=True)
    return rc, out


def err_excerpt(out, n=25):
    ls = [x for x in out.splitlines() if not re.match(r"^\d+\. Line ", x)]
    for i, x in enumerate(ls):
        if "Error" in x or "error" in x:
            return "\n".join(ls[max(0, i - 2):i + n])
    return "\n".join(ls[-n:])


_STATS = re.compile(r"(\d+) states generated, (\d+) distinct states found, (\d+) states left on queue")
_DEPTH = re.compile(r"The depth of the complete state graph search is (\d+)")
_INVV = re.compile(r"Error: Invariant (\S+) is violated")
_PROPV = re.compile(r"Error: (Action property|Temporal propert(?:y|ies)) (\S*)")


def make_cfg(spec="Spec", constants=None, invariants=(), properties=(), constraint=None, action_constraint=None,
             view=None, postcondition=None, deadlock=False, symmetry=None, extra=""):
    lines = ["SPECIFICATION %s" % spec]
    if constants:
        lines.append("CONSTANTS")
        for k, v in constants.items():
            lines.append("  %s = %s" % (k, v))
    if invariants:
        lines.append("INVARIANTS " + " ".join(invariants))
    if properties:
        lines.append("PROPERTIES " + " ".join(properties))
    if constraint:
        lines.append("CONSTRAINT " + constraint)
    if action_constraint:
        lines.append("ACTION_CONSTRAINT " + action_constraint)
    if view:
        lines.append("VIEW " + view)
    if symmetry:
        lines.append("SYMMETRY " + symmetry)
    if postcondition:
        lines.append("POSTCONDITION " + postcondition)
    lines.append("CHECK_DEADLOCK %s" % ("TRUE" if deadlock else "FALSE"))
    if extra:
        lines.append(extra)
    return "\n".join(lines) + "\n"


def tla_set(xs):
    def f(x):
        if isinstance(x, str):
            return '"%s"' % x
        if isinstance(x, bool):
            return "TRUE" if x else "FALSE"
        return str(x)
    return "{" + ", ".join(f(x) for x in xs) + "}"


def apalache(run, subdir, module, args, timeout=600):
    """Run apalache-mc check in a scratch copy; returns (ok, no_error, output).  Tool trouble is Inconclusive."""
    d = run.tmp("apa")
    os.makedirs(d, exist_ok=True)
    src = os.path.join(run.specdir, subdir, module + ".tla")
    shutil.copy(src, d)
    cmd = ["apalache-mc", "check", "--out-dir=" + os.path.join(d, "out")] + list(args) + [module + ".tla"]
    try:
        p = subprocess.run(cmd, cwd=d, stdout=subprocess.PIPE, stderr=subprocess.STDOUT, text=True, timeout=timeout)
    except (subprocess.TimeoutExpired, FileNotFoundError) as ex:
        raise Inconclusive("apalache-mc %s: %s" % (module, ex))
    out = p.stdout
    if "EXITCODE: OK" in out:
        return True, out
    if "EXITCODE: ERROR (12)" in out or "violat" in out.lower():
        return False, out
    raise Inconclusive("apalache-mc %s failed: %s" % (module, out[-800:]))


def model_check(run, subdir, module, constants, invariants=(), properties=(), constraint=None, view=None,
                edges=False, workers=None, timeout=3600, label=None, symmetry=None, spec="Spec",
                expect_violation=False, coverage=False, action_constraint=None):
    """Design-level model check. Returns dict with states, distinct, depth and (if edges) the edge list.
    A violated invariant/property of the *model* is a defect of the machinery: Inconclusive (exit 2),
    never a VIOLATION verdict (DESIGN.md section 1)."""
    d = os.path.join(run.specdir, subdir)
    ac = action_constraint
    if edges:
        ac = "LogEdge"
        view = view or "View"
    cfg = make_cfg(spec=spec, constants=constants, invariants=invariants, properties=properties,
                   constraint=constraint, view=view, action_constraint=ac, symmetry=symmetry)
    t0 = time.time()
    extra = ["-coverage", "1"] if coverage else []
    rc, out = tlc(run, d, module, cfg, workers=workers, timeout=timeout, extra=extra)
    m = None
    for m in _STATS.finditer(out):
        pass
    res = dict(module=module, label=label or module, constants=constants, wall_s=round(time.time() - t0, 1),
               invariants=list(invariants), properties=list(properties))
    viol = _INVV.search(out) or _PROPV.search(out)
    if expect_violation:
        res["violated"] = viol.group(0) if viol else None
        res["out"] = out
        return res
    if rc != 0 or not m or viol or "Error:" in out:
        tail = err_excerpt(out, 40)
        raise Inconclusive("model check of %s failed (rc=%s): %s\n%s" % (module, rc, viol.group(0) if viol else "", tail))
    res["generated"], res["distinct"] = int(m.group(1)), int(m.group(2))
    dm = _DEPTH.search(out)
    res["depth"] = int(dm.group(1)) if dm else 0
    if coverage:
        res["zero_coverage"] = zero_cov(out)
    run.cov["states"] += res["distinct"]
    run.cov["transitions"] += res["generated"]
    run.cov["model_checks"].append({k: v for k, v in res.items() if k not in ("edges",)})
    if edges:
        res["edges"] = parse_edges(out)
    log("  [mc] %s %s: %d distinct / %d generated, depth %d, %.1fs%s" % (
        module, label or "", res["distinct"], res["generated"], res["depth"], res["wall_s"],
        (", %d edges" % len(res["edges"])) if edges else ""))
    return res


def zero_cov(out):
    """Action names whose coverage line reports 0 states (vacuity check)."""
    z = []
    for ln in out.splitlines():
        mm = re.match(r"<(\w+) line .*>: (\d+):(\d+)", ln.strip())
        if mm and int(mm.group(3)) == 0:
            z.append(mm.group(1))
    return z


def parse_edges(out):
    edges = []
    pre = '<<"E", "'
    for ln in out.splitlines():
        if ln.startswith(pre) and ln.endswith('">>'):
            inner = ln[len(pre):-3]
            try:
                edges.append(json.loads(json.loads('"' + inner + '"')))
            except Exception:
                pass
    return edges


def parse_printed(out, tag):
    """Lines printed by PrintT(<<tag, ToJson(x)>>) -> list of decoded JSON values."""
    res = []
    pre = '<<"%s", "' % tag
    for ln in out.splitlines():
        if ln.startswith(pre) and ln.endswith('">>'):
            inner = ln[len(pre):-3]
            try:
                res.append(json.loads(json.loads('"' + inner + '"')))
            except Exception:
                pass
    return res


# ----------------------------------------------------------------------------
# Transition tour
# ----------------------------------------------------------------------------
def tour(edges, init_ids, rng, max_len=40, key=lambda e: json.dumps(e["f"], sort_keys=True),
         tkey=lambda e: json.dumps(e["t"], sort_keys=True), limit=None):
    """Cover every edge of the graph at least once with paths starting at an initial node.
    Returns list of paths (each a list of edges) and stats."""
    out = {}
    seen = set()
    uniq = []
    for e in edges:
        k = (key(e), tkey(e), json.dumps(e["op"], sort_keys=True))
        if k in seen:
            continue
        seen.add(k)
        e["_f"], e["_t"] = k[0], k[1]
        uniq.append(e)
        out.setdefault(k[0], []).append(e)
    for v in out.values():
        rng.shuffle(v)
    inits = [json.dumps(i, sort_keys=True) for i in init_ids]
    # BFS tree from inits
    parent = {i: None for i in inits}
    frontier = list(inits)
    while frontier:
        nxt = []
        for n in frontier:
            for e in out.get(n, []):
                if e["_t"] not in parent:
                    parent[e["_t"]] = e
                    nxt.append(e["_t"])
        frontier = nxt

    def path_to(n):
        p = []
        while parent.get(n) is not None:
            e = parent[n]
            p.append(e)
            n = e["_f"]
        p.reverse()
        return p

    uncovered = {id(e) for e in uniq if e["_f"] in parent}
    unc_out = {}
    for e in uniq:
        if e["_f"] in parent:
            unc_out.setdefault(e["_f"], []).append(e)
    paths = []
    order = [e for e in uniq if e["_f"] in parent]
    rng.shuffle(order)
    order.sort(key=lambda e: len(path_to(e["_f"])))
    for e0 in order:
        if id(e0) not in uncovered:
            continue
        if limit and len(paths) >= limit:
            break
        p = path_to(e0["_f"])
        cur = e0["_f"]
        nextedge = e0
        while nextedge is not None and len(p) < max_len:
            p.append(nextedge)
            uncovered.discard(id(nextedge))
            cur = nextedge["_t"]
            nextedge = None
            lst = unc_out.get(cur, [])
            while lst:
                c = lst.pop()
                if id(c) in uncovered:
                    nextedge = c
                    break
        paths.append(p)
    total = len([e for e in uniq if e["_f"] in parent])
    stats = dict(edges_total=total, edges_covered=total - len(uncovered), nodes=len(parent), paths=len(paths))
    return paths, stats


# ----------------------------------------------------------------------------
# Go harness
# ----------------------------------------------------------------------------
def go_env():
    e = dict(os.environ)
    e.update(GOENV)
    return e


_BUILD_LOCK = threading.Lock()


def build_driver(run, race=False, tags="verif"):
    with _BUILD_LOCK:
        return _build_driver(run, race, tags)


def _build_driver(run, race=False, tags="verif"):
    out = os.path.join(run.scratch, "driver-race" if race else "driver")
    if os.path.exists(out):
        return out
    cmd = ["go", "build", "-tags", tags, "-o", out]
    if race:
        cmd.insert(2, "-race")
    cmd.append("./cmd/driver")
    hdir = HARNESS
    if REPO != "/repo":
        # experiments against a scratch copy of the repository (VERIF_REPO): same harness, replace directive redirected
        hdir = os.path.join(run.scratch, "harness")
        if not os.path.exists(hdir):
            shutil.copytree(HARNESS, hdir)
            gm = open(os.path.join(hdir, "go.mod")).read().replace("=> /repo", "=> " + REPO)
            open(os.path.join(hdir, "go.mod"), "w").write(gm)
    p = subprocess.run(cmd, cwd=hdir, env=go_env(), stdout=subprocess.PIPE, stderr=subprocess.STDOUT, text=True)
    if p.returncode != 0:
        raise Inconclusive("harness build failed:\n" + p.stdout[-3000:])
    return out


def run_race(run, comp, plan_lines, timeout=1800):
    """Run a component under the race detector; returns (events, race_reports)."""
    evs, rc, err = run_driver(run, comp, plan_lines, race=True, timeout=timeout, allow_fail=True)
    reports = []
    if "WARNING: DATA RACE" in err:
        parts = err.split("WARNING: DATA RACE")[1:]
        reports = [("WARNING: DATA RACE" + x)[:3000] for x in parts[:5]]
    elif rc != 0:
        raise Inconclusive("race-enabled driver %s failed rc=%d: %s" % (comp, rc, err[-1500:]))
    return evs, reports


def race_rejection(run, comp, report, validator="go-race-detector"):
    """A data race reported by the Go race detector on a real execution: a fact about that execution."""
    frames = [ln.strip() for ln in report.splitlines() if ln.strip().startswith("gopkg.in/typ.v4") or "/repo/" in ln]
    fn = ""
    for ln in report.splitlines():
        ln = ln.strip()
        if ln.startswith("gopkg.in/typ.v4"):
            fn = ln.split("(")[0] if "(" in ln else ln
            break
    run.rejections.append(dict(validator=validator, subdir="", constants={}, clause="DataRace", segment=[{"op": fn, "report": report}],
                               full_segment=[], offset=0, plan=None, clauses=[], label="race", fact=True, comp=comp, cls=fn))


def crash_rejection(run, comp, msg, plan):
    """The driver process died inside the code under test (Go fatal error: stack overflow, deadlock, unlock of an unlocked
    mutex ...) while executing this plan: a fact about an execution that happened."""
    run.rejections.append(dict(validator="driver", subdir="", constants={}, clause="NoCrash", segment=[{"op": "crash", "msg": msg[:300]}],
                               full_segment=[], offset=0, plan=plan, clauses=[], label="crash", fact=True, comp=comp, cls=msg[:60]))


def run_driver(run, comp, plan_lines, race=False, timeout=1800, args=(), allow_fail=False):
    """Feed ndjson plan lines to `driver <comp>`; returns list of trace events (dicts)."""
    drv = build_driver(run, race=race)
    pf = run.tmp("plan-%s.ndjson" % comp)
    tf = run.tmp("trace-%s.ndjson" % comp)
    with open(pf, "w") as f:
        for ln in plan_lines:
            f.write(json.dumps(ln, separators=(",", ":")) + "\n")
    t0 = time.time()
    try:
        p = subprocess.run([drv, comp, pf, tf] + list(args), stdout=subprocess.PIPE, stderr=subprocess.PIPE,
                           timeout=timeout, text=True, errors="replace")
    except subprocess.TimeoutExpired:
        raise Inconclusive("driver %s timed out" % comp)
    if os.environ.get("VERIF_DEBUG"):
        log("  [drv] %s: %d plan lines, %.1fs%s" % (comp, len(plan_lines), time.time() - t0, (" stderr: " + p.stderr[-300:]) if p.stderr else ""))
    if p.returncode != 0 and not allow_fail:
        raise Inconclusive("driver %s failed rc=%d: %s" % (comp, p.returncode, p.stderr[-2000:]))
    evs = []
    if os.path.exists(tf):
        with open(tf) as f:
            for ln in f:
                ln = ln.strip()
                if ln:
                    try:
                        evs.append(json.loads(ln))
                    except ValueError:
                        if not allow_fail:
                            raise
                        break       # the process died while writing this line
    if allow_fail:
        return evs, p.returncode, p.stderr
    return evs


def split_segments(events, reset_key="op", reset_val="Reset"):
    segs = []
    for e in events:
        if e.get(reset_key) == reset_val or not segs:
            segs.append([])
        segs[-1].append(e)
    return segs


def run_plans(run, comp, plans, timeout=3000, reset_key="op", reset_val="Reset"):
    """Run plans (each a list of plan lines starting with a reset line) through one driver process and return one trace segment
    per plan.  If the process dies inside the code under test (a Go fatal error - stack overflow, concurrent map write - cannot be
    recovered), the plan during which it died is pinned down by running the following plans one by one, recorded as a NoCrash
    rejection (its segment is the partial trace plus a crash line, judged by nothing else), and the rest is resumed."""
    segs, i, crashes = [], 0, 0
    while i < len(plans):
        if crashes >= 5:     # the process keeps dying: five recorded crashes say it all, the remaining plans are not run
            run.notes.append("driver %s died %d times; %d remaining plans not run" % (comp, crashes, len(plans) - i))
            segs += [None] * (len(plans) - i)
            break
        evs, rc, err = run_driver(run, comp, [c for p in plans[i:] for c in p], timeout=timeout, allow_fail=True)
        cur = split_segments(evs, reset_key, reset_val)
        if rc == 0:
            segs += cur
            break
        msg = next((ln.strip() for ln in err.splitlines() if ln.startswith(("fatal error:", "panic:", "runtime:"))), "")
        if not msg:
            raise Inconclusive("driver %s failed rc=%d: %s" % (comp, rc, err[-1500:]))
        done = max(0, len(cur) - 1)          # the last segment may be incomplete (and buffered lines may be missing altogether)
        segs += cur[:done]
        i += done
        while i < len(plans):
            one, rc1, err1 = run_driver(run, comp, plans[i], timeout=600, allow_fail=True)
            if rc1 != 0:
                crash_rejection(run, comp, msg, plans[i])
                segs.append(None)
                i += 1
                crashes += 1
                break
            segs += split_segments(one, reset_key, reset_val)
            i += 1
    return segs


def drop_crashed(plans, segs):
    """(plans, segments) without the plans during which the process died (those are already recorded as NoCrash rejections)."""
    keep = [i for i, sg in enumerate(segs) if sg is not None]
    return [plans[i] for i in keep], [segs[i] for i in keep]


# ----------------------------------------------------------------------------
# Trace validation
# ----------------------------------------------------------------------------
_HWM = re.compile(r'<<"HWM", (\d+), (\d+)>>')


def _validate_file(run, subdir, module, constants, path, gate=True, clauses=(), timeout=1800, spec="TSpec",
                   constraint="Track", workers=1):
    d = os.path.join(run.specdir, subdir)
    consts = dict(constants or {})
    consts["Gate"] = "TRUE" if gate else "FALSE"
    cfg = make_cfg(spec=spec, constants=consts, invariants=([] if gate else list(clauses)),
                   constraint=constraint, postcondition="Accepted")
    rc, out = tlc(run, d, module, cfg, workers=workers, env={"TRACE_FILE": path}, timeout=timeout)
    m = _HWM.search(out)
    inv = _INVV.search(out)
    if rc == 124:
        raise Inconclusive("trace validation timed out (%s)" % module)
    if not m and not inv:
        raise Inconclusive("trace validator %s failed to run:\n%s" % (module, err_excerpt(out)))
    hwm = int(m.group(1)) if m else None
    n = int(m.group(2)) if m else None
    return dict(accepted=(m is not None and hwm == n + 1 and not inv), hwm=hwm, n=n,
                clause=inv.group(1) if inv else None, out=out)


_SKIP_KEYS = {"plan", "ex", "site", "to", "ty", "ety", "how", "what", "msg", "seq", "at", "offus"}


def _corrupt(seg, rng, mode):
    """One small lie in a recorded trace: a changed scalar / list element of one event, or one event dropped."""
    seg = json.loads(json.dumps(seg))
    idx = [j for j, e in enumerate(seg) if str(e.get("op", e.get("ev", ""))).lower() != "reset"] or list(range(len(seg)))
    j = rng.choice(idx)
    if mode == "drop" and len(seg) >= 3:
        del seg[j]
        return seg, "event %d dropped" % j

    def leaves(o, path):
        if isinstance(o, dict):
            for k, v in o.items():
                if k not in _SKIP_KEYS:
                    yield from leaves(v, path + [k])
        elif isinstance(o, list):
            for i, v in enumerate(o):
                yield from leaves(v, path + [i])
        elif isinstance(o, (bool, int)):
            yield path
    ls = list(leaves(seg[j], []))
    if not ls:
        return seg, None
    path = rng.choice(ls)
    o = seg[j]
    for k in path[:-1]:
        o = o[k]
    old = o[path[-1]]
    o[path[-1]] = (not old) if isinstance(old, bool) else old + 1
    return seg, "event %d field %s: %r -> %r" % (j, "/".join(map(str, path)), old, o[path[-1]])


def _selftest_corrupt(run, subdir, module, constants, segments, label, timeout):
    """VERIF_CORRUPT=field|drop: instead of validating the recorded traces, validate copies of up to 24 of them with one
    small lie each and report how many the validator rejects (bin/selftest).  Nothing is added to the verdict."""
    mode = os.environ["VERIF_CORRUPT"]
    rng = random.Random(run.seed * 7919 + len(segments))
    cand = [i for i, sg in enumerate(segments) if len(sg) >= (3 if mode == "drop" else 1)]
    picks = rng.sample(cand, min(24, len(cand)))
    rejected, examples = 0, []
    for i in picks:
        seg, what = _corrupt(segments[i], rng, mode)
        if what is None:
            continue
        path = run.tmp("c.ndjson")
        with open(path, "w") as f:
            for e in seg:
                f.write(json.dumps(e, separators=(",", ":")) + "\n")
        try:
            r = _validate_file(run, subdir, module, constants, path, gate=True, timeout=timeout)
        except Inconclusive:
            r = dict(accepted=False)      # the lie made a clause ill-defined (e.g. an index outside a sequence): not accepted either
        os.unlink(path)
        if not r["accepted"]:
            rejected += 1
        elif len(examples) < 3:
            examples.append(what)
    log("SELFTEST validator=%s label=%s mode=%s corrupted=%d rejected=%d%s" % (
        module, label, mode, len(picks), rejected, ("  accepted e.g.: " + "; ".join(examples)) if examples else ""))
    return len(segments)


def validate(run, subdir, module, constants, segments, clauses, plans=None, max_rej=8, chunk_events=None,
             label="abs", count=True, timeout=1800, into=None):
    """Validate trace segments (each a list of event dicts, first one the Reset event) with the
    TLC trace validator <module>. Rejected segments are diagnosed (which clause) and recorded in
    run.rejections. Returns number of accepted segments."""
    t0 = time.time()
    if os.environ.get("VERIF_CORRUPT"):
        return _selftest_corrupt(run, subdir, module, constants, segments, label, timeout)
    # chunking
    if chunk_events is None:
        chunk_events = max(400, sum(len(s) for s in segments) // 14 + 1)
    # TLC cannot handle behaviours of 65536 or more states once its queue spills to disk: keep every trace file well below that
    # (validators with silent steps take several states per trace line)
    chunk_events = min(chunk_events, 12000)
    chunks, cur, n = [], [], 0
    for i, s in enumerate(segments):
        if cur and n + len(s) > chunk_events:
            chunks.append(cur)
            cur, n = [], 0
        cur.append(i)
        n += len(s)
    if cur:
        chunks.append(cur)
    accepted = [0]
    events = [0]
    rejs = []

    def do_chunk(idx):
        todo = list(idx)
        while todo:
            path = run.tmp("t.ndjson")
            starts = []
            ln = 1
            with open(path, "w") as f:
                for i in todo:
                    starts.append(ln)
                    for e in segments[i]:
                        f.write(json.dumps(e, separators=(",", ":")) + "\n")
                        ln += 1
            r = _validate_file(run, subdir, module, constants, path, gate=True, timeout=timeout)
            os.unlink(path)
            if r["accepted"]:
                accepted[0] += len(todo)
                events[0] += ln - 1
                return
            bad = r["hwm"]          # 1-based line that could not be consumed
            j = max(k for k in range(len(todo)) if starts[k] <= bad)
            accepted[0] += j
            events[0] += starts[j] - 1
            seg_i = todo[j]
            rejs.append((seg_i, bad - starts[j]))  # 0-based index of offending event in segment
            if len(rejs) >= max_rej:
                return
            todo = todo[j + 1:]

    with ThreadPoolExecutor(max_workers=max(1, min(NCPU - 2, len(chunks) or 1))) as ex:
        list(ex.map(do_chunk, chunks))
    # diagnose
    for seg_i, off in sorted(rejs)[:max_rej]:
        seg = segments[seg_i][:off + 1]
        path = run.tmp("diag.ndjson")
        with open(path, "w") as f:
            for e in seg:
                f.write(json.dumps(e, separators=(",", ":")) + "\n")
        r = _validate_file(run, subdir, module, constants, path, gate=False, clauses=clauses)
        clause = r["clause"] or ("Step" if not r["accepted"] else "Unknown")
        (run.rejections if into is None else into).append(dict(validator=module, subdir=subdir, constants=constants, clause=clause,
                                   segment=seg, full_segment=segments[seg_i], offset=off,
                                   plan=(plans[seg_i] if plans else None), clauses=list(clauses), label=label))
    if count:
        run.cov["traces_validated_against_impl"] += accepted[0]
        run.cov["evaluations"] += events[0]
    log("  [tv] %s: %d segments, %d accepted, %d events, %d rejected, %.1fs" % (
        module, len(segments), accepted[0], events[0], len(rejs), time.time() - t0))
    return accepted[0]


def revalidate_one(run, rej, segment):
    """Validate a single (re-executed) segment with the same validator; True if accepted."""
    path = run.tmp("re.ndjson")
    with open(path, "w") as f:
        for e in segment:
            f.write(json.dumps(e, separators=(",", ":")) + "\n")
    r = _validate_file(run, rej["subdir"], rej["validator"], rej["constants"], path, gate=True)
    return r["accepted"]


# ----------------------------------------------------------------------------
# Verdict, findings, evidence
# ----------------------------------------------------------------------------
def load_findings():
    p = os.path.join(ROOT, "known_findings.json")
    if not os.path.exists(p):
        return []
    return json.load(open(p)).get("findings", [])


def signature(rej):
    """property-independent signature of a rejection: clause + normalised shape of the failing step."""
    last = rej["segment"][-1] if rej["segment"] else {}
    return dict(clause=rej["clause"], op=str(last.get("op", last.get("ev", ""))), cls=rej.get("cls", ""))


def repo_rev():
    try:
        rev = subprocess.run(["git", "-C", REPO, "rev-parse", "HEAD"], stdout=subprocess.PIPE, text=True).stdout.strip()
        diff = subprocess.run(["git", "-C", REPO, "diff", "HEAD"], stdout=subprocess.PIPE, text=True).stdout
        return rev, hashlib.sha1(diff.encode()).hexdigest()[:12] if diff else ""
    except Exception:
        return "", ""


def write_replay(run, rej, n):
    d = os.path.join(ROOT, "replays", run.pid)
    os.makedirs(d, exist_ok=True)
    rev, dh = repo_rev()
    path = os.path.join(d, "%s-%s-%d.json" % (time.strftime("%Y%m%dT%H%M%S", time.gmtime()), run.tier, n))
    with open(path, "w") as f:
        json.dump(dict(property=run.pid, tier=run.tier, seed=run.seed, validator=rej["validator"],
                       clause=rej["clause"], comp=rej.get("comp"), plan=rej.get("plan"),
                       rejected_at_event=rej["offset"], trace=rej["segment"], signature=signature(rej),
                       repo_rev=rev, repo_dirty=dh, note=rej.get("note", "")), f, indent=1)
    return path


def finish(run, level="model_checking", reexec=None, extra_cov=None):
    """Decide the exit code. reexec(rej) -> re-executed trace segment (list of events) or None
    when the rejection is a fact about an execution that happened (race report, child crash)."""
    findings = load_findings()
    violations = 0
    inconclusive = 0
    known = set()
    n = 0
    seen_sigs = {}
    for rej in run.rejections:
        sig = signature(rej)
        sk = json.dumps(sig, sort_keys=True)
        seen_sigs[sk] = seen_sigs.get(sk, 0) + 1
        if seen_sigs[sk] > 1:
            continue   # one report per distinct signature
        hit = None
        for f in findings:
            if f.get("status", "open") != "open" or f.get("property") != run.pid:
                continue
            fs = f.get("signature", {})
            if all(sig.get(k) == v for k, v in fs.items()):
                hit = f
                break
        if hit:
            key = hit.get("id", json.dumps(hit.get("signature")))
            if key not in known:
                known.add(key)
                log("KNOWN-FINDING: property=%s %s" % (run.pid, hit.get("what", "")))
            continue
        # reproduce
        if reexec is not None and rej.get("plan") is not None and not rej.get("fact"):
            try:
                seg2 = reexec(rej)
            except Inconclusive as ex:
                seg2 = None
                log("  re-execution failed: %s" % ex)
            if seg2 is None or revalidate_one(run, rej, seg2):
                inconclusive += 1
                log("INCONCLUSIVE property=%s rejection of clause %s did not reproduce" % (run.pid, rej["clause"]))
                continue
        n += 1
        violations += 1
        path = write_replay(run, rej, n)
        log("  rejected by %s clause %s at event %d: %s" % (rej["validator"], rej["clause"], rej["offset"],
                                                            json.dumps(rej["segment"][-1])[:400]))
        log("VIOLATION property=%s replay=%s" % (run.pid, path))
    cov = run.cov
    if extra_cov:
        cov.update(extra_cov)
    cov["samples"] = cov["samples"][:3] or [{"note": "no sample recorded"}]
    cov["notes"] = run.notes
    ev = dict(property_id=run.pid, tier=run.tier, seed=run.seed, level=level, coverage=cov,
              assumptions=run.assumptions, wall_s=round(time.time() - run.t0, 1), violations=violations)
    if not getattr(run, "is_replay", False) and not os.environ.get("VERIF_NO_EVIDENCE"):
        # (a replay re-executes one stored plan and is not a coverage run; experiments against seeded changes set VERIF_NO_EVIDENCE)
        os.makedirs(os.path.join(ROOT, "evidence"), exist_ok=True)
        with open(os.path.join(ROOT, "evidence", run.pid + ".json"), "w") as f:
            json.dump(ev, f, indent=1)
    log("%s %s tier=%s seed=%d: states=%d transitions=%d traces=%d events=%d violations=%d wall=%.1fs" % (
        "FAIL" if violations else ("INCONCLUSIVE" if inconclusive else "PASS"), run.pid, run.tier, run.seed,
        cov["states"], cov["transitions"], cov["traces_validated_against_impl"], cov["evaluations"], violations,
        time.time() - run.t0))
    if violations:
        return 1
    if inconclusive:
        return 2
    return 0


def distinct_count(segments, nontrivial=lambda seg: len(seg) > 1):
    seen = set()
    for s in segments:
        if nontrivial(s):
            seen.add(hashlib.sha1(json.dumps(s, sort_keys=True).encode()).hexdigest())
    return len(seen)


def conformance(plans, segs, keys):
    """Spec -> code direction: compare what the implementation-level model predicted for each tour
    edge (fields `keys` of the edge's op record) with what the real code returned.  Informational:
    a mismatch is a divergence between code and model, never by itself a violation."""
    checked = mism = 0
    first = None
    for p, s in zip(plans, segs):
        for c, e in zip(p, s):
            for k in keys:
                if k in c and k in e and c.get("op") != "Reset":
                    checked += 1
                    if c[k] != e[k]:
                        mism += 1
                        if first is None:
                            first = dict(planned=c, observed=e)
    r = dict(conformance=(mism == 0), compared=checked, mismatches=mism)
    if first:
        r["first_divergence"] = first
        log("NOTE conformance-divergence: model predicted %s, code did %s" % (
            json.dumps(first["planned"])[:200], json.dumps(first["observed"])[:200]))
    return r
