"""Shared by C04 / C05 / C09 / C03: driving sync2.Map-based types under the controlled scheduler."""
import itertools
from .core import *

KINDS = ["Load", "Store", "LoadOrStore", "LoadAndDelete", "Delete"]
ALLK = '{"Load","Store","LoadOrStore","LoadAndDelete","Delete","Range"}'


def ops_over(keys):
    return [(op, k) for op in KINDS for k in keys] + [("Range", keys[0])]


def setup_calls(seq):
    return [dict(op=op, k=k, v=100 + 10 * (i + 1) + k) for i, (op, k) in enumerate(seq)]


def thread_calls(t, seq):
    return [dict(op=op, k=k, v=t * 10 + i + 1) for i, (op, k) in enumerate(seq)]


def run_programs(run, comp, programs, timeout=3000):
    """Returns (histories, fine_traces): per execution one dict (hist line) and, where recorded, the fine events."""
    evs = run_driver(run, comp, programs, timeout=timeout)
    hists, fines, cur = [], [], None
    for e in evs:
        if e["ev"] == "summary":
            run.cov["executions_total"] = run.cov.get("executions_total", 0) + e["executions"]
            continue
        if e["ev"] == "hist":
            if 0 <= e.get("plan", -1) < len(programs):
                e["program"] = programs[e["plan"]]
            hists.append(e)
            cur = None
        elif e["ev"] == "reset":
            cur = [e]
            fines.append(cur)
        elif cur is not None:
            cur.append(e)
    return hists, fines


def history_segments(hists):
    """Distinct histories as validator segments (a projection: identical histories are validated once)."""
    seen, segs, srcs = set(), [], []
    for h in hists:
        key = json.dumps(h["h"], sort_keys=True)
        if key in seen:
            continue
        seen.add(key)
        segs.append([{"ev": "reset"}] + h["h"])
        srcs.append(h)
    return segs, srcs


def replay_plans(srcs):
    """For each distinct history: the program and the schedule that produced it (re-executable under the scheduler)."""
    out = []
    for h in srcs:
        p = dict(h.get("program") or {})
        if p and "progs" in p:
            p.update(mode="schedule", schedule=h["choices"], n=1, fine=1)
        out.append(p or None)
    return out
