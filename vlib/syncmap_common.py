"""Shared by C04 / C05 / C09 / C03: driving sync2.Map-based types under the controlled scheduler."""
import itertools
from .core import *

KINDS = ["Load", "Store", "LoadOrStore", "LoadAndDelete", "Delete"]
ALLK = '{"Load","Store","LoadOrStore","LoadAndDelete","Delete","Range"}'


def ops_over(keys):
    return [(op, k) for op in KINDS for k in keys] + [("Range", keys[0])]


def setup_calls(seq):
    return [dict(op=op, k=k, v=100 + 10 * (i + 1) + k) for i, (op, k) in enumerate(seq)]


def thread_calls(t, seq):
    return [dict(op=op, k=k, v=t * 10 + i + 1) for i, (op, k) in enumerate(seq)]


def crash_history(run, comp, programs, stderr):
    """The driver process died (Go fatal error / unrecovered panic in the code under test).  The journal names the program
    that was running; it is re-run alone with every event journalled, and the partial history of its last execution,
    ended by a "crash" line, is returned as a history (no validator action explains a crash line)."""
    import glob
    js = sorted(glob.glob(os.path.join(run.scratch, "*trace-%s.ndjson.journal" % comp)))
    if not js:
        return None
    last = None
    for ln in open(js[-1]):
        try:
            e = json.loads(ln)
        except ValueError:
            continue
        if e.get("ev") == "begin":
            last = e["plan"]
    if last is None or last >= len(programs):
        return None
    prog = programs[last]
    evs2, rc, err2 = run_driver(run, comp, [prog], args=["fulljournal"], allow_fail=True, timeout=600)
    js2 = sorted(glob.glob(os.path.join(run.scratch, "*trace-%s.ndjson.journal" % comp)))
    evs, ex = [], None
    for ln in open(js2[-1]):
        try:
            e = json.loads(ln)
        except ValueError:
            continue
        if "ex" in e:
            if e["ex"] != ex:
                ex, evs = e["ex"], []
            evs.append(e)
    h = []
    for e in evs:
        if e["ev"] == "inv":
            x = {k: e[k] for k in ("ev", "t", "op", "k", "v") if k in e}
            if "s" in e:
                x["s"] = e["s"]
            h.append(x)
        elif e["ev"] == "ret" or (e["ev"] == "step" and e.get("to") == "idle"):
            h.append(dict(ev="ret", t=e["t"], rv=e.get("rv", 0), rok=e.get("rok", False), rep=e.get("rep", [])))
    msg = ""
    for ln in (err2 or stderr).splitlines():
        if ln.startswith("fatal error:") or ln.startswith("panic:"):
            msg = ln.strip()
            break
    h.append(dict(ev="crash", msg=msg or "driver process died"))
    return dict(ev="hist", plan=last, ex=ex or 0, free=False, deadlock=False, blocked=False, choices=[], h=h, program=prog,
                crashed=True)


def run_programs(run, comp, programs, timeout=3000):
    """Returns (histories, fine_traces): per execution one dict (hist line) and, where recorded, the fine events."""
    evs, rc, err = run_driver(run, comp, programs, timeout=timeout, allow_fail=True)
    crash = None
    if rc != 0:
        if "fatal error:" in err or "panic:" in err:
            crash = crash_history(run, comp, programs, err)
        if crash is None:
            msg = next((ln.strip() for ln in err.splitlines() if ln.startswith(("fatal error:", "panic:", "runtime:"))), "")
            if not msg:
                raise Inconclusive("driver %s failed rc=%d: %s" % (comp, rc, err[-1500:]))
            # died inside the code under test (e.g. "concurrent map writes") and the execution could not be reconstructed: the crash
            # itself is the fact; what was recorded before it is still validated
            crash_rejection(run, comp, msg, None)
            log("  driver %s died (%s)" % (comp, msg))
        else:
            log("  driver %s died (%s); partial history of the crashing execution recorded" % (comp, crash["h"][-1]["msg"]))
    hists, fines, cur = [], [], None
    for e in evs:
        if e["ev"] == "summary":
            run.cov["executions_total"] = run.cov.get("executions_total", 0) + e["executions"]
            continue
        if e["ev"] == "hist":
            if 0 <= e.get("plan", -1) < len(programs):
                e["program"] = programs[e["plan"]]
            hists.append(e)
            cur = None
        elif e["ev"] == "reset":
            cur = [e]
            fines.append(cur)
        elif e["ev"] == "aborted":
            run.notes.append("driver %s stopped early after %d deadlocks / %d stuck steps" % (comp, e["deadlocks"], e["stuck"]))
        elif cur is not None:
            cur.append(e)
    if crash is not None:
        hists.append(crash)
    return hists, fines


def history_segments(hists):
    """Distinct histories as validator segments (a projection: identical histories are validated once)."""
    seen, segs, srcs = set(), [], []
    for h in hists:
        key = json.dumps(h["h"], sort_keys=True)
        if key in seen:
            continue
        seen.add(key)
        segs.append([{"ev": "reset"}] + h["h"])
        srcs.append(h)
    return segs, srcs


def replay_plans(srcs):
    """For each distinct history: the program and the schedule that produced it (re-executable under the scheduler)."""
    out = []
    for h in srcs:
        p = dict(h.get("program") or {})
        if p and "progs" in p:
            p.update(mode="schedule", schedule=h["choices"], n=1, fine=1)
        out.append(p or None)
    return out
